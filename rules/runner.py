"""Rule runner: loads facts, runs a property's rules, handles known findings,
writes evidence and the violation report."""
import importlib, json, os, sys, time, collections
import facts
import analyses as A

VERIF = facts.VERIF
KNOWN = os.path.join(VERIF, 'known_findings.txt')


class Report:
    def __init__(self, pid, tier):
        self.pid = pid
        self.tier = tier
        self.instances = []      # dicts: rule, fn, site, status, detail
        self.violations = []     # dicts: key, rule, fn, where, msg
        self.unresolved = []
        self.candidates = []     # listed, not armed
        self.rules = collections.OrderedDict()  # rule id -> text
        self.analysed_fns = set()
        self.notes = []
        self._ord = collections.Counter()

    def rule(self, rid, text):
        self.rules[rid] = text

    def analysed(self, *fns):
        for f in fns:
            self.analysed_fns.add(f if isinstance(f, str) else f.name)

    def holds(self, rule, fn, site, detail=''):
        self.instances.append({'rule': rule, 'fn': _n(fn), 'site': site, 'status': 'holds', 'detail': detail})

    def violation(self, rule, fn, what, where, msg):
        """what: the callee / field / instance name that identifies the violation
        (no line numbers). where: file:line for the reader."""
        base = '%s|%s|%s' % (rule, _n(fn), what)
        k = self._ord[base]
        self._ord[base] += 1
        key = '%s|%d' % (base, k)
        self.instances.append({'rule': rule, 'fn': _n(fn), 'site': what, 'status': 'violation', 'detail': msg})
        self.violations.append({'key': key, 'rule': rule, 'fn': _n(fn), 'where': where, 'msg': msg})

    def unresolved_instance(self, rule, fn, site, why):
        self.instances.append({'rule': rule, 'fn': _n(fn), 'site': site, 'status': 'unresolved', 'detail': why})
        self.unresolved.append({'rule': rule, 'fn': _n(fn), 'site': site, 'why': why})

    def candidate(self, rule, fn, site, why):
        self.candidates.append({'rule': rule, 'fn': _n(fn), 'site': site, 'why': why})

    def floor(self, rule, what, got, need):
        """Fail closed when a rule would pass vacuously: no instance of what it quantifies over was found. The number confirmed
        by hand (`need`) is kept in the report, but only zero is an alarm — a refactoring that merges or splits sites changes
        the count without changing the behaviour."""
        self.notes.append('%s: %s = %d (confirmed by hand on the development tree: >= %d)' % (rule, what, got, need))
        need = min(need, 1)
        if got < need:
            self.violation(rule, 'anchor-missing', what, '-',
                           'anchor-missing: %s: found %d, confirmed floor is %d — the rule would pass vacuously' % (what, got, need))
            return False
        return True

    def require_fn(self, rule, crate, name):
        f = crate.fns.get(name)
        if f is None:
            self.violation(rule, 'anchor-missing', name, '-',
                           'anchor-missing: function %s not found by resolved def-path' % name)
        else:
            self.analysed(f)
        return f


def _n(fn):
    return fn if isinstance(fn, str) else fn.name


class Ctx:
    def __init__(self, fdir, tier):
        self.fdir = fdir
        self.tier = tier
        self._cg = {}

    def crate(self, name):
        return facts.load(self.fdir, name)

    def callgraph(self, names):
        key = tuple(sorted(names))
        if key not in self._cg:
            self._cg[key] = A.CallGraph([self.crate(n) for n in key])
        return self._cg[key]


def load_known():
    known, fixed = {}, []
    if os.path.exists(KNOWN):
        for line in open(KNOWN):
            line = line.strip()
            if not line or line.startswith('#'):
                continue
            if line.startswith('known:'):
                parts = line.split(None, 3)
                pid = parts[1].split('=', 1)[1]
                key = parts[2].split('=', 1)[1]
                desc = parts[3] if len(parts) > 3 else ''
                known[(pid, key)] = desc
            elif line.startswith('fixed:'):
                fixed.append(line)
    return known, fixed


def run_property(pid, tier, fdir=None, th=None, extract_s=0.0, quiet=False):
    t0 = time.time()
    if fdir is None:
        fdir, th, extract_s = facts.ensure_facts(verbose=not quiet)
    ctx = Ctx(fdir, tier)
    rep = Report(pid, tier)
    mod = importlib.import_module(pid.lower())
    mod.run(ctx, rep)
    if tier == 'thorough':
        import selftest
        selftest.run(rep)
    known, _ = load_known()
    new, hit = [], []
    for v in rep.violations:
        if (pid, v['key']) in known:
            hit.append(v)
        else:
            new.append(v)
    # NV_OUT (development tools only: evaluating a scratch worktree) redirects the report and the evidence away from /verif
    outroot = os.environ.get('NV_OUT') or VERIF
    os.makedirs(os.path.join(outroot, 'reports'), exist_ok=True)
    rpath = os.path.join(outroot, 'reports', pid + '.txt')
    with open(rpath, 'w') as fh:
        fh.write('property %s tier %s facts %s\n' % (pid, tier, th))
        for rid, text in rep.rules.items():
            fh.write('RULE %s: %s\n' % (rid, text))
        for v in new:
            fh.write('VIOLATION key=%s\n  at %s\n  %s\n' % (v['key'], v['where'], v['msg']))
        for v in hit:
            fh.write('KNOWN key=%s\n  at %s\n  %s\n' % (v['key'], v['where'], v['msg']))
        for u in rep.unresolved:
            fh.write('UNRESOLVED %s %s %s: %s\n' % (u['rule'], u['fn'], u['site'], u['why']))
        for c in rep.candidates:
            fh.write('CANDIDATE %s %s %s: %s\n' % (c['rule'], c['fn'], c['site'], c['why']))
        for i in rep.instances:
            fh.write('INSTANCE %s %s %s [%s] %s\n' % (i['rule'], i['fn'], i['site'], i['status'], i['detail']))
    for v in hit:
        print('KNOWN-FINDING: property=%s key=%s %s (%s)' % (pid, v['key'], known[(pid, v['key'])], v['where']))
    for v in new:
        print('  %s %s\n    %s' % (v['key'], v['where'], v['msg']))
    stale = [k for (p, k) in known if p == pid and k not in {v['key'] for v in hit}]
    for k in stale:
        print('note: known finding no longer observed: property=%s key=%s' % (pid, k))
    wall = time.time() - t0
    inst = rep.instances
    obligations = len(inst)
    discharged = sum(1 for i in inst if i['status'] == 'holds')
    distinct = len({(i['rule'], i['fn']) for i in inst})
    samples = []
    seen_rules = set()
    for i in inst:
        if i['rule'] not in seen_rules:
            seen_rules.add(i['rule'])
            samples.append(i)
    for v in (new + hit)[:4]:
        samples.append({'violation': v})
    ev = {
        'property_id': pid,
        'tier': tier,
        'seed': int(os.environ.get('VERIF_SEED', '0') or 0),
        'level': 'other',
        'coverage': {
            'explanation': 'static analysis over rustc MIR facts of /repo\'s current tree (resolved callees, CFG dominance / '
                           'cut-reachability, guard live ranges, def-use slices, field write sets, call graph); rules: '
                           + ' || '.join('%s: %s' % kv for kv in rep.rules.items()),
            'obligations': obligations,
            'discharged': discharged,
            'evaluations': obligations,
            'distinct_nontrivial': distinct,
            'rule': 'one instance = one (rule, function, site) obligation found in the fact base; non-trivial = the site exists in today\'s MIR; distinct = distinct (rule, function) pairs',
            'samples': samples[:12],
            'rules': list(rep.rules.keys()),
            'functions_analysed': sorted(rep.analysed_fns),
            'n_functions_analysed': len(rep.analysed_fns),
            'unresolved': rep.unresolved,
            'candidates_listed_not_armed': rep.candidates[:60],
            'known_findings_hit': [v['key'] for v in hit],
            'new_violations': [v['key'] for v in new],
            'facts_hash': th,
            'extract_s': round(extract_s, 1),
            'checker_cmd': './nv check %s --tier %s' % (pid, tier),
            'exhaustive': True,
            'notes': rep.notes,
        },
        'assumptions': [
            'rustc nightly MIR (mir-opt-level=0) of the --lib build with default features on this target represents the program',
            'decides the structural necessary conditions named in the rules, not the behavioural property as a whole',
        ] + getattr(mod, 'ASSUMPTIONS', []),
        'wall_s': round(wall + extract_s, 2),
        'violations': len(new),
    }
    os.makedirs(os.path.join(outroot, 'evidence'), exist_ok=True)
    with open(os.path.join(outroot, 'evidence', pid + '.json'), 'w') as fh:
        json.dump(ev, fh, indent=1, sort_keys=False)
    print('%s: %d instances, %d hold, %d known findings, %d unresolved, %d new violations (%.1fs)' % (
        pid, obligations, discharged, len(hit), len(rep.unresolved), len(new), wall))
    if new:
        print('VIOLATION property=%s replay=%s' % (pid, rpath))
        return 1
    return 0


def fmt_place(p):
    return '_%d%s' % (p[0], ''.join('.' + str(x).split('.')[-1] if x != '*' else '*' for x in p[1]))


def fmt_op(o):
    return fmt_place(o[1]) if o[0] in ('c', 'm') else 'k(%s)' % o[1][:60]


def fmt_rv(rv):
    k = rv[0]
    if k == 'use':
        return fmt_op(rv[1])
    if k == 'ref':
        return '&%s%s' % ('mut ' if rv[2] else '', fmt_place(rv[1]))
    if k == 'bin':
        return '%s(%s, %s)' % (rv[1], fmt_op(rv[2]), fmt_op(rv[3]))
    if k == 'un':
        return '%s(%s)' % (rv[1], fmt_op(rv[2]))
    if k == 'cast':
        return '%s as %s' % (fmt_op(rv[1]), rv[2])
    if k == 'disc':
        return 'disc(%s)' % fmt_place(rv[1])
    if k == 'agg':
        return '%s{%s}' % (rv[1], ', '.join('%s' % fmt_op(o) for o in rv[2]))
    return k


def show(f, full=False):
    print('fn %s  %s  argc=%d' % (f.name, f.loc(), f.argc))
    print('  names:', {k: fmt_place(v) for k, v in f.d['names'].items()})
    for i, b in enumerate(f.bbs):
        if b['cleanup'] and not full:
            continue
        t = b['t']
        if t[0] == 'call' and t[8] and not full:
            print('  bb%d: (macro) call %s -> bb%s' % (i, t[2][:60], t[5]))
            continue
        print('  bb%d:%s' % (i, ' (cleanup)' if b['cleanup'] else ''))
        for st in b['s']:
            print('      %s = %s   @%d' % (fmt_place(st[0]), fmt_rv(st[1]), st[2]))
        if t[0] == 'call':
            print('      %s = CALL %s(%s) -> bb%s unwind bb%s  @%d   [%s]' % (fmt_place(t[4]), t[2], ', '.join(fmt_op(a) for a in t[3]), t[5], t[6], t[7], f.locals[t[4][0]][:80]))
        elif t[0] == 'drop':
            print('      DROP %s : %s -> bb%s  @%d' % (fmt_place(t[1]), t[2][:90], t[3], t[5]))
        elif t[0] == 'sw':
            print('      SWITCH %s %s else bb%s  @%d' % (fmt_op(t[1]), t[2], t[3], t[4]))
        else:
            print('      %s' % t)


def claimed():
    m = json.load(open(os.path.join(VERIF, 'MANIFEST.json')))
    return [c['property_id'] for c in m['checks']]


def main(argv):
    if not argv:
        print(__doc__)
        return 2
    cmd = argv[0]
    tier = os.environ.get('VERIF_TIER', 'quick')
    if '--tier' in argv:
        tier = argv[argv.index('--tier') + 1]
    if cmd == 'setup':
        facts.build_driver()
        return 0
    if cmd == 'extract':
        facts.ensure_facts()
        return 0
    if cmd == 'check':
        try:
            return run_property(argv[1], tier)
        except Exception:
            import traceback
            traceback.print_exc()
            print('ERROR property=%s the check crashed (see traceback); no verdict' % argv[1])
            return 2
    if cmd == 'all':
        fdir, th, dt = facts.ensure_facts()
        rc = 0
        for pid in claimed():
            try:
                rc |= run_property(pid, tier, fdir, th, dt)
            except Exception:
                # an internal failure of the checker is neither a pass nor a violation: say so and fail with a distinct code
                import traceback
                traceback.print_exc()
                print('ERROR property=%s the check crashed (see traceback); no verdict' % pid)
                rc |= 2
        return rc
    if cmd == 'inventory':
        # run on the tree the rules were developed on (after a fix: commit that adds functions): freezes the function inventory
        fdir, th, dt = facts.ensure_facts()
        print('inventory: %d functions' % facts.write_inventory(fdir))
        return 0
    if cmd == 'show':
        fdir, th, dt = facts.ensure_facts()
        cr = facts.load(fdir, argv[1])
        for n, f in cr.fns.items():
            if argv[2] in n and ('--exact' not in argv or n == argv[2]):
                show(f, full='--full' in argv)
        return 0
    if cmd == 'grepfn':
        fdir, th, dt = facts.ensure_facts()
        cr = facts.load(fdir, argv[1])
        for n, f in cr.fns.items():
            if argv[2] in n:
                print(n, f.loc())
        return 0
    print('unknown command', cmd)
    return 2
