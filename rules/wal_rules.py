"""Sibling rules over the three write-ahead logs (R02b tail repair, R02e replay stops)."""
import re
import analyses as A
import lib

WALS = {
    'TensorWal': dict(crate='tensor_store', open='tensor_store::wal::TensorWal::open',
                      replay='tensor_store::wal::TensorWal::replay_with_validation',
                      struct='tensor_store::wal::TensorWal'),
    'RaftWal': dict(crate='tensor_chain', open='tensor_chain::raft_wal::RaftWal::open_with_config',
                    replay='tensor_chain::raft_wal::RaftWal::<W>::replay_with_validation',
                    struct='tensor_chain::raft_wal::RaftWal'),
    'TxWal': dict(crate='tensor_chain', open='tensor_chain::tx_wal::TxWal::open_with_config',
                  replay='tensor_chain::tx_wal::TxWal::<W>::replay_with_validation',
                  struct='tensor_chain::tx_wal::TxWal'),
}

READ_EXACT = ('re', r'(^|::)read_exact$|Read>::read_exact$|Read::read_exact$')


def _find(crate, name):
    if name in crate.fns:
        return crate.fns[name]
    # tolerate generic parameter spelling differences: match by path without <..>
    key = re.sub(r'::<[^>]*>', '', name)
    for n, f in crate.fns.items():
        if re.sub(r'::<[^>]*>', '', n) == key:
            return f
    return None


def r02b(ctx, rep, which):
    """tail repair on reopen for the named WALs."""
    rep.rule('R02b', 'a WAL whose open() takes the file in append mode must, somewhere under open(), move the end of file back to '
                     'the end of the last complete record (File::set_len fed by a record-scanning read_exact loop): the record '
                     'format has no resync marker and replay stops at the first incomplete record, so anything appended after a '
                     'torn tail is unreachable (or fails recovery with a checksum error)')
    for w in which:
        spec = WALS[w]
        cr = ctx.crate(spec['crate'])
        cg = ctx.callgraph([spec['crate']])
        f = _find(cr, spec['open'])
        if f is None:
            rep.violation('R02b', 'anchor-missing', spec['open'], '-', 'anchor-missing: open function of %s not found' % w)
            continue
        rep.analysed(f)
        # slot: the open function (or a callee) builds the WAL struct and opens with OpenOptions
        reach = cg.reach([f.name])
        opens = []
        append_mode = False
        for n in reach:
            g = cg.fns.get(n)
            if g is None:
                continue
            for c in A.calls(g):
                if c.resolved.endswith('OpenOptions::append') and len(c.args) > 1 and c.args[1] == ['k', 'true']:
                    append_mode = True
                if c.resolved.endswith('OpenOptions::open') or c.resolved.endswith('File::create') or c.resolved.endswith('File::options'):
                    opens.append((n, c.line))
        if not opens:
            rep.violation('R02b', f, 'open-call', f.loc(), 'anchor-missing: %s::open no longer opens a file via OpenOptions' % w)
            continue
        reposition = []
        for n in sorted(reach):
            g = cg.fns.get(n)
            if g is None:
                continue
            for c in A.calls(g):
                if re.search(r'fs::File::set_len$', c.resolved) or (not append_mode and re.search(r'Seek>::seek$|Seek::seek$', c.resolved)):
                    # the new length must come from scanning records
                    defs = A.Defs(g)
                    sl = A.backward_slice(g, [c.args[1]] if len(c.args) > 1 else [], defs)
                    fed = False
                    for callee in sl.calls:
                        if cg.path(callee, lambda x: A.name_matches(x, READ_EXACT)) or A.name_matches(callee, READ_EXACT):
                            fed = True
                    if A.calls_to(g, READ_EXACT):
                        fed = True
                    reposition.append((n, c.line, fed))
        good = [r for r in reposition if r[2]]
        if good:
            rep.holds('R02b', f, w, 'set_len at %s:%d fed by a record scan' % (good[0][0], good[0][1]))
        else:
            rep.violation('R02b', f, w + '-tail-repair', f.loc(),
                          '%s::open opens the log in %s mode and nothing under it (%d functions) truncates a torn tail '
                          '(no File::set_len fed by a record scan%s): after a crash mid-record, later appends land behind the '
                          'partial record and replay never reaches them' % (
                              w, 'append' if append_mode else 'write', len(reach),
                              '; set_len present but not fed by a scan' if reposition else ''))


def r02e(ctx, rep, which):
    rep.rule('R02e', 'in each WAL replay loop, once a read_exact or a record decode fails no further read_exact is reachable '
                     '(replay stops at the first incomplete/undecodable record, it never skips one)')
    for w in which:
        spec = WALS[w]
        cr = ctx.crate(spec['crate'])
        f = _find(cr, spec['replay'])
        if f is None:
            rep.violation('R02e', 'anchor-missing', spec['replay'], '-', 'anchor-missing: replay function of %s not found' % w)
            continue
        rep.analysed(f)
        uses = A.Uses(f)
        reads = A.calls_to(f, READ_EXACT)
        decs = A.calls_to(f, ('re', r'bitcode::deserialize|bincode::deserialize|::from_bytes$|deserialize_entry|::decode'))
        if not rep.floor('R02e', '%s replay read_exact calls' % w, len(reads), 3):
            continue
        rep.floor('R02e', '%s replay decode calls' % w, len(decs), 1)
        read_blocks = {c.bb for c in reads}
        for kind, cs in (('read_exact', reads), ('decode', decs)):
            for k, c in enumerate(cs):
                o = A.call_outcome(f, c, uses)
                if not o.err:
                    if o.returned:
                        rep.holds('R02e', f, '%s %s#%d' % (w, kind, k), 'error propagated')
                    else:
                        rep.unresolved_instance('R02e', f, '%s %s#%d' % (w, kind, k), 'error edge of the call not recognised')
                    continue
                R = A.reachable(f, [t for (_, t) in o.err])
                again = sorted(R & read_blocks)
                if again:
                    rep.violation('R02e', f, '%s-%s' % (w, kind), f.loc(c.line),
                                  'after a failed %s the replay loop can reach another read_exact (bb%s): a bad record is skipped, not a stop' % (kind, again))
                else:
                    rep.holds('R02e', f, '%s %s#%d' % (w, kind, k), 'error edge leaves the loop')
