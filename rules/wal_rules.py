"""Sibling rules over the three write-ahead logs (R02b tail repair, R02e replay stops)."""
import re
import analyses as A
import lib

WALS = {
    'TensorWal': dict(crate='tensor_store', open='tensor_store::wal::TensorWal::open',
                      replay='tensor_store::wal::TensorWal::replay_with_validation',
                      struct='tensor_store::wal::TensorWal'),
    'RaftWal': dict(crate='tensor_chain', open='tensor_chain::raft_wal::RaftWal::open_with_config',
                    replay='tensor_chain::raft_wal::RaftWal::<W>::replay_with_validation',
                    struct='tensor_chain::raft_wal::RaftWal'),
    'TxWal': dict(crate='tensor_chain', open='tensor_chain::tx_wal::TxWal::open_with_config',
                  replay='tensor_chain::tx_wal::TxWal::<W>::replay_with_validation',
                  struct='tensor_chain::tx_wal::TxWal'),
}

READ_EXACT = ('re', r'(^|::)read_exact$|Read>::read_exact$|Read::read_exact$')


def _find(crate, name):
    if name in crate.fns:
        return crate.fns[name]
    # tolerate generic parameter spelling differences: match by path without <..>
    key = re.sub(r'::<[^>]*>', '', name)
    for n, f in crate.fns.items():
        if re.sub(r'::<[^>]*>', '', n) == key:
            return f
    return None


def r02b(ctx, rep, which):
    """tail repair on reopen for the named WALs."""
    rep.rule('R02b', 'a WAL whose open() takes the file in append mode must, somewhere under open(), move the end of file back to '
                     'the end of the last complete record (File::set_len fed by a record-scanning read_exact loop): the record '
                     'format has no resync marker and replay stops at the first incomplete record, so anything appended after a '
                     'torn tail is unreachable (or fails recovery with a checksum error)')
    for w in which:
        spec = WALS[w]
        cr = ctx.crate(spec['crate'])
        cg = ctx.callgraph([spec['crate']])
        f = _find(cr, spec['open'])
        if f is None:
            rep.violation('R02b', 'anchor-missing', spec['open'], '-', 'anchor-missing: open function of %s not found' % w)
            continue
        rep.analysed(f)
        # slot: the open function (or a callee) builds the WAL struct and opens with OpenOptions
        reach = cg.reach([f.name])
        opens = []
        append_mode = False
        for n in reach:
            g = cg.fns.get(n)
            if g is None:
                continue
            for c in A.calls(g):
                if c.resolved.endswith('OpenOptions::append') and len(c.args) > 1 and c.args[1] == ['k', 'true']:
                    append_mode = True
                if c.resolved.endswith('OpenOptions::open') or c.resolved.endswith('File::create') or c.resolved.endswith('File::options'):
                    opens.append((n, c.line))
        if not opens:
            rep.violation('R02b', f, 'open-call', f.loc(), 'anchor-missing: %s::open no longer opens a file via OpenOptions' % w)
            continue
        reposition = []
        for n in sorted(reach):
            g = cg.fns.get(n)
            if g is None:
                continue
            for c in A.calls(g):
                # only cutting the file repairs a torn tail: a cursor placed in front of it leaves the rest of the torn record in
                # the file, and the next scan reads its zero runs as empty records
                if re.search(r'fs::File::set_len$', c.resolved):
                    # the new length must come from scanning records
                    defs = A.Defs(g)
                    sl = A.backward_slice(g, [c.args[1]] if len(c.args) > 1 else [], defs)
                    fed = False
                    for callee in sl.calls:
                        if cg.path(callee, lambda x: A.name_matches(x, READ_EXACT)) or A.name_matches(callee, READ_EXACT):
                            fed = True
                    if A.calls_to(g, READ_EXACT):
                        fed = True
                    reposition.append((n, c.line, fed))
        good = [r for r in reposition if r[2]]
        # the scan must not count a record it has not seen in full: where the scan's position advances, a must-pass
        # test compares the record end with the file length, or the payload was read with read_exact
        for (n, line, fed) in good:
            g = cg.fns[n]
            defs = A.Defs(g)
            scs = [c for c in A.calls(g) if re.search(r'fs::File::set_len$', c.resolved)] or \
                  [c for c in A.calls(g) if re.search(r'Seek>?::seek$|Seek::seek$', c.resolved)]
            if not scs or len(scs[0].args) < 2:
                continue
            sc = scs[0]
            sl = A.backward_slice(g, [sc.args[1]], defs)
            scanners = [cg.fns[x] for x in sl.calls if x in cg.fns and cg.path(x, lambda y: A.name_matches(y, READ_EXACT))]
            if A.calls_to(g, READ_EXACT):
                scanners.append(g)
            for sf in scanners:
                ok_scan = _scan_sound(sf)
                if ok_scan:
                    rep.holds('R02b', sf, w + ' scan', ok_scan)
                else:
                    rep.violation('R02b', sf, w + '-scan-counts-partial-record', sf.loc(),
                                  'the record scan that decides where the log ends advances over a record without a must-pass test that the whole '
                                  'record is present (no comparison with the file length, payload not read with read_exact): a tail torn after the '
                                  'length prefix is counted as complete and never repaired')
        if good and not append_mode:
            # a handle that is not in append mode writes at its cursor: after the tail was cut the cursor has to be moved to the new end
            stale = None
            for n in sorted(reach):
                g = cg.fns.get(n)
                if g is None:
                    continue
                seeks = {c.bb for c in A.calls(g) if re.search(r'Seek>?::seek$|Seek::seek$', c.resolved) or re.search(r'Seek>?::seek$', c.generic)}
                for c in A.calls(g):
                    if re.search(r'fs::File::set_len$', c.resolved):
                        start = [c.target] if c.target is not None and c.target >= 0 else []
                        if lib.success_return_reachable(g, start, cut_blocks=seeks):
                            stale = (g, c)
            if stale:
                g, c = stale
                rep.violation('R02b', g, w + '-cursor-behind-the-cut', g.loc(c.line),
                              '%s::open writes through a handle that is not in append mode, cuts the torn tail with set_len and can return '
                              'without seeking to the new end: the next record is written at the old end of file, behind a hole of zero '
                              'bytes that replay takes for a broken record' % w)
                continue
        if good:
            rep.holds('R02b', f, w, 'set_len at %s:%d fed by a record scan' % (good[0][0], good[0][1]))
        else:
            rep.violation('R02b', f, w + '-tail-repair', f.loc(),
                          '%s::open opens the log in %s mode and nothing under it (%d functions) truncates a torn tail '
                          '(no File::set_len fed by a record scan%s): after a crash mid-record, later appends land behind the '
                          'partial record and replay never reaches them' % (
                              w, 'append' if append_mode else 'write', len(reach),
                              '; set_len present but not fed by a scan' if reposition else ''))


def _scan_sound(f):
    """In a record-scanning loop, the loop's back edge (next record) must only be reachable through a test involving
    the file length (Metadata::len) or through the Ok edge of a read_exact that covers the payload."""
    defs = A.Defs(f)
    uses = A.Uses(f)
    reads = A.calls_to(f, READ_EXACT)
    if not reads:
        return None
    first = min(reads, key=lambda c: (c.line, c.bb))
    # loop = blocks from which the first read is reachable again
    loop_back_preds = [b for b in range(len(f.bbs)) if first.bb in A.succs(f, b) or first.bb in A.reachable(f, A.succs(f, b))]
    # edges that must be passed to come back to the header read after having passed it once
    after = A.reachable(f, [first.target]) if first.target is not None else set()
    if first.bb not in after:
        return None  # no loop
    # candidate guards: comparisons whose slice includes Metadata::len, and Ok-edges of later read_exact calls
    guards_len = set()
    for i, b in enumerate(f.bbs):
        if b['cleanup'] or b['t'][0] != 'sw' or i not in after:
            continue
        l = lib.switch_local(f, i)
        d = A.single_def(defs, l) if l is not None else None
        if d and d[2] == 'st' and d[3][1][0] == 'bin' and d[3][1][1] in ('Gt', 'Lt', 'Ge', 'Le'):
            sl = A.backward_slice(f, [d[3][1][2], d[3][1][3]], defs)
            if any(re.search(r'Metadata::len$', c) for c in sl.calls):
                for s2 in set(A.succs(f, i)):
                    guards_len.add((i, s2))
    payload_ok = set()
    for c in reads:
        if c is first:
            continue
        o = A.call_outcome(f, c, uses)
        payload_ok |= o.ok
    # can the header read be reached again from its own Ok continuation with all those guard edges cut?
    o1 = A.call_outcome(f, first, uses)
    starts = [t for (_, t) in o1.ok] or [first.target]
    if guards_len:
        # at least one length comparison must be must-pass on the way back to the header
        for (a, s2) in sorted(guards_len):
            R = A.reachable(f, starts, cut_edges={(a, s2)})
            if first.bb not in R:
                return 'loop continues only through a comparison with the file length'
    if payload_ok:
        R = A.reachable(f, starts, cut_edges=payload_ok)
        if first.bb not in R:
            return 'loop continues only after the payload was read with read_exact'
    return None


def _read_wrappers(fns, mod):
    """functions of the WAL module that wrap one read_exact and report its failure in their result:
    name -> the bool payload that means `read failed` (False for `Ok(false) on EOF`), or None when failure is only Err"""
    out = {}
    for n, h in fns.items():
        if not n.startswith(mod + '::') or '{closure' in n:
            continue
        rt = h.locals[0] if h.locals else ''
        if 'Result<' not in rt:
            continue
        reads = A.calls_to(h, READ_EXACT)
        if len(reads) != 1:
            continue
        uses = A.Uses(h)
        o = A.call_outcome(h, reads[0], uses)
        if not o.err and not o.returned:
            continue
        fail_vals = set()
        if 'Result<bool' in rt and o.err:
            R = A.reachable(h, [t for (_, t) in o.err])
            for bb in R:
                for st in h.bbs[bb]['s']:
                    rv = st[1]
                    if rv[0] == 'agg' and rv[1].endswith('Result::Ok') and rv[2] and rv[2][0][0] == 'k':
                        fail_vals.add(rv[2][0][1])
        out[n] = (False if fail_vals == {'false'} else True if fail_vals == {'true'} else None)
    return out


def _payload_bool_edges(f, uses, call, want):
    """edges taken when the bool payload of call's Ok(..) value equals `want`"""
    out = set()
    work = [call.dest[0]] if not call.dest[1] else []
    seen = set()
    while work:
        l = work.pop()
        if l in seen:
            continue
        seen.add(l)
        for u in uses.uses.get(l, []):
            if u[0] == 'call' and u[3].generic.endswith('Try::branch') and not u[3].dest[1]:
                work.append(u[3].dest[0])
            elif u[0] == 'st':
                st, pl = u[3], u[4]
                if st[1][0] == 'use' and not st[0][1]:
                    if pl[1] and f.locals[st[0][0]] == 'bool':
                        o = A.outcome_edges(f, st[0][0], 'bool', uses)
                        out |= (o.ok if want else o.err)
                    elif not pl[1]:
                        work.append(st[0][0])
    return out


def r02e(ctx, rep, which):
    rep.rule('R02e', 'in each WAL replay loop, once a record read (read_exact, directly or through a helper that reports a short read as '
                     'Ok(false) / Err) or a record decode fails, no further record read is reachable '
                     '(replay stops at the first incomplete/undecodable record, it never skips one)')
    for w in which:
        spec = WALS[w]
        cr = ctx.crate(spec['crate'])
        f = _find(cr, spec['replay'])
        if f is None:
            rep.violation('R02e', 'anchor-missing', spec['replay'], '-', 'anchor-missing: replay function of %s not found' % w)
            continue
        # helpers extracted from the loop are inlined (facts.apply_inlining) and followed with variant / payload tracking; if the
        # inlined body does not show the record reads, fall back to the raw body with read wrappers
        fns = cr.fns
        if len(A.calls_to(f, READ_EXACT)) < 2 and hasattr(cr, 'raw_fns'):
            fns = cr.raw_fns
            f = fns.get(f.name, f)
        mod = re.sub(r'::<[^>]*>', '', spec['struct']).rsplit('::', 1)[0]
        wrappers = _read_wrappers(fns, mod)

        def read_sites(g):
            return A.calls_to(g, READ_EXACT) + [c for c in A.calls(g) if c.resolved in wrappers]
        # the record loop may live in a helper of the same module (replay → replay_file): follow the calls
        if len(read_sites(f)) < 2:
            seen, work, cands = set(), [f.name], []
            while work:
                n = work.pop()
                if n in seen or n not in fns:
                    continue
                seen.add(n)
                for c in A.calls(fns[n]):
                    if c.resolved.startswith(mod + '::') and c.resolved not in wrappers:
                        work.append(c.resolved)
                if n != f.name and len(read_sites(fns[n])) >= 2 and not re.search(r'valid_prefix', n):
                    cands.append(fns[n])
            if cands:
                f = cands[0]
        rep.analysed(f)
        uses = A.Uses(f)
        reads = read_sites(f)
        decs = A.calls_to(f, ('re', r'bitcode::deserialize|bincode::deserialize|::from_bytes$|deserialize_entry|::decode'))
        if not rep.floor('R02e', '%s replay record reads' % w, len(reads), 2):
            continue
        rep.floor('R02e', '%s replay decode calls' % w, len(decs), 1)
        read_blocks = {c.bb for c in reads}
        for kind, cs in (('read', reads), ('decode', decs)):
            for k, c in enumerate(cs):
                o = A.call_outcome(f, c, uses)
                fail = set(o.err)
                if c.resolved in wrappers and wrappers[c.resolved] is not None:
                    fail |= _payload_bool_edges(f, uses, c, wrappers[c.resolved])
                if not fail:
                    if o.returned:
                        rep.holds('R02e', f, '%s %s#%d' % (w, kind, k), 'error propagated')
                    else:
                        rep.unresolved_instance('R02e', f, '%s %s#%d' % (w, kind, k), 'failure edge of the call not recognised')
                    continue
                R = A.reachable(f, [t for (_, t) in fail])
                again = sorted(R & read_blocks)
                if again:
                    rep.violation('R02e', f, '%s-%s' % (w, 'read_exact' if kind == 'read' else kind), f.loc(c.line),
                                  'after a failed %s the replay loop can reach another record read (bb%s): a bad record is skipped, not a stop' % (kind, again))
                else:
                    rep.holds('R02e', f, '%s %s#%d' % (w, kind, k), 'failure edge leaves the loop')


def r02f(ctx, rep, which):
    """shrinking the log moves the write position with it"""
    rep.rule('R02f', 'a WAL method that shortens the live log file in place (File::set_len on the handle it keeps) must leave the write '
                     'position at the new end: the handle was opened in append mode in that same function, or a Seek follows the '
                     'set_len on every path, or every handle ever stored in the WAL is an append-mode handle; otherwise records '
                     'written next land behind a hole that replay cannot cross')
    for w in which:
        spec = WALS[w]
        cr = ctx.crate(spec['crate'])
        struct = spec['struct']
        fns = [f for n, f in cr.fns.items() if n.startswith(struct + '::') or n.startswith(struct.replace('::', '::', 1) + '::<')]
        if not fns:
            rep.violation('R02f', 'anchor-missing', struct, '-', 'anchor-missing: no methods of %s found' % w)
            continue
        # kinds of handles stored into the WAL's writer field
        kinds = {}
        for f in fns:
            defs = None
            sites = []
            for b in f.bbs:
                if b['cleanup']:
                    continue
                for st in b['s']:
                    rv = st[1]
                    if rv[0] == 'agg' and rv[1] == struct and rv[3]:
                        for nm, op in zip(rv[3], rv[2]):
                            if nm in ('file', 'writer') and op[0] != 'k':
                                sites.append(op)
                    fs = A.place_fields(st[0])
                    if fs and fs[-1] in (struct + '.file', struct + '.writer') and rv[0] == 'use' and rv[1][0] != 'k':
                        sites.append(rv[1])
            for op in sites:
                defs = defs or A.Defs(f)
                sl = A.backward_slice(f, [op], defs)
                k = 'other'
                if any(c.endswith('OpenOptions::append') for c in sl.calls):
                    k = 'append'
                elif any(c.endswith('File::create') for c in sl.calls):
                    k = 'create'
                elif any(c.endswith('OpenOptions::open') for c in sl.calls):
                    k = 'open'
                kinds.setdefault(k, []).append(f.name)
        all_append = bool(kinds) and set(kinds) <= {'append'}
        n = 0
        for f in fns:
            sl_calls = [c for c in A.calls(f) if re.search(r'fs::File::set_len$', c.resolved)]
            if not sl_calls:
                continue
            defs = A.Defs(f)
            for c in sl_calls:
                n += 1
                rs = A.backward_slice(f, [c.args[0]], defs)
                local_append = any(x.endswith('OpenOptions::append') for x in rs.calls)
                seeks = [x for x in A.calls(f) if re.search(r'Seek>::(seek|rewind)$|Seek::(seek|rewind)$', x.resolved + ' ' + x.generic)]
                followed = False
                if seeks and c.target is not None:
                    R = A.reachable(f, [c.target], cut_blocks={x.bb for x in seeks})
                    followed = not any(r in R for r in A.return_blocks(f))
                if local_append or followed or all_append:
                    rep.holds('R02f', f, w + ' set_len', 'append-mode handle' if (local_append or all_append) else 'seek follows')
                else:
                    rep.violation('R02f', f, w + '-cursor-after-set_len', f.loc(c.line),
                                  '%s shortens the log with set_len on a handle that is not append-mode in every case (handles stored: %s) and '
                                  'does not seek: after a rotation the cursor stays at the old offset and later records are written behind a '
                                  'hole of zero bytes that replay stops at' % (lib.short(f.name), {k: sorted(set(lib.short(x) for x in v)) for k, v in kinds.items()}))
        rep.notes.append('R02f: %s handle kinds %s, %d set_len site(s)' % (w, {k: len(v) for k, v in kinds.items()}, n))


def r02g(ctx, rep, which):
    rep.rule('R02g', 'the log reader refuses nothing the writer accepted: in everything reachable from open() and replay of a WAL, a '
                     'comparison of a decoded record length (or a buffer length) with a bound made of constants only — a size policy, as '
                     'opposed to a comparison with the file length or format arithmetic — has a counterpart on the same constant in the '
                     'append path. A replay that stops at a record larger than N while append acknowledges such records drops that '
                     'record and every acknowledged write after it')
    for w in which:
        spec = WALS[w]
        cr = ctx.crate(spec['crate'])
        cg = ctx.callgraph([spec['crate']])
        starts = [x.name for x in (_find(cr, spec['open']), _find(cr, spec['replay'])) if x is not None]
        if len(starts) < 2:
            rep.violation('R02g', 'anchor-missing', w, '-', 'anchor-missing: open/replay of %s not found' % w)
            continue
        base = re.sub(r'::<[^>]*>', '', spec['struct'])
        mod = base.rsplit('::', 1)[0]
        readers = [cg.fns[n] for n in cg.reach(starts) if n in cg.fns and n.startswith(mod + '::')]
        writers = [g for n, g in cr.fns.items() if re.sub(r'::<[^>]*>', '', n).startswith(base + '::') and
                   re.search(r'::(append\w*|write_entry\w*)$', A.parent_fn(n))]
        bad, n = lib.reader_only_policies(readers, writers)
        for k, (g, line, op, cs) in enumerate(bad):
            rep.analysed(g)
            rep.violation('R02g', g, 'reader-only-limit', g.loc(line),
                          'the reader compares a record length with %s and the append path has no such test: a record the writer '
                          'acknowledged is treated as damage on replay, and replay stops there — it and every later acknowledged write are '
                          'gone after a restart' % ', '.join(cs))
        if not bad:
            rep.holds('R02g', starts[1], '%s size policies' % w, '%d reader function(s), %d policy comparison(s), all matched by the writer' % (len(readers), n))
        rep.floor('R02g', 'functions reachable from open/replay of %s' % w, len(readers), 2)


def r02h(ctx, rep, which):
    rep.rule('R02h', 'rotated segments are read oldest first: rotate() renames segment i to i+1, so a higher index is older. Any WAL function '
                     'that loops over rotated_path(i) and reads the files (opens / replays them, as opposed to removing or renaming them) '
                     'iterates the indices in descending order (.rev()); ascending order feeds recovery a TxComplete before its TxBegin '
                     'and a finished transaction comes back as in progress. Today no WAL reads its rotated segments at all')
    for w in which:
        spec = WALS[w]
        cr = ctx.crate(spec['crate'])
        base = re.sub(r'::<[^>]*>', '', spec['struct'])
        n = 0
        nf = 0
        mod = base.rsplit('::', 1)[0]
        for name, f in sorted(cr.fns.items()):
            if not re.sub(r'::<[^>]*>', '', name).startswith(mod + '::'):
                continue
            nf += 1
            rps = [c for c in A.calls_to(f, ('re', r'::rotated_path$')) if c.bb in A.reachable(f, [c.target])]
            if not rps:
                continue
            defs = A.Defs(f)
            uses = A.Uses(f)
            for k, c in enumerate(rps):
                # what is done with the path
                tainted = lib.forward_taint(f, {c.dest[0]})
                reads = [x for x in A.calls(f) if any(a[0] != 'k' and a[1][0] in tainted for a in x.args) and
                         re.search(r'File::open$|OpenOptions::open$|::replay\w*$|::read\w*$|BufReader', x.resolved)]
                if not reads:
                    continue
                n += 1
                rep.analysed(f)
                sl = A.backward_slice(f, [c.args[-1]], defs) if c.args and c.args[-1][0] != 'k' else None
                desc = sl is not None and any(re.search(r'Iterator::rev$|DoubleEndedIterator>?::next_back$|Rev<', x) for x in sl.calls)
                if desc:
                    rep.holds('R02h', f, '%s segments#%d' % (w, k), 'read in descending index order')
                else:
                    rep.violation('R02h', f, 'segments-newest-first', f.loc(c.line),
                                  'rotated segments are read in ascending index order, i.e. newest first (rotate() moves segment i to '
                                  'i+1): records reach recovery out of order — a transaction prepared in an older segment and completed in '
                                  'a newer one is seen as TxComplete-then-TxBegin and restored as Prepared, where abort() succeeds')
        if n == 0:
            rep.holds('R02h', base, '%s rotated segments' % w, 'never read (%d methods scanned)' % nf)
        rep.floor('R02h', '%s methods scanned' % w, nf, 5)


CRC = re.compile(r'crc32fast::hash$|crc32fast::Hasher::finalize$|::compute_checksum$|::checksum$|crc32\w*$')


def _crc_sites(fns, f):
    """checksum computations in f with the must-pass atoms `<stored> != 0` that guard them"""
    out = []
    defs = None
    for c in A.calls(f):
        if not CRC.search(c.resolved):
            continue
        defs = defs or A.Defs(f)
        nz = False
        for at in lib.must_pass_atoms(fns, f, defs, c.bb):
            if at.kind == 'cmp' and at.op == 'Ne':
                sa, sb = lib.val_sig(at.fn, at.defs, at.a), lib.val_sig(at.fn, at.defs, at.b)
                sls = at.side_slices()
                if (sa == ('k', 0) or sb == ('k', 0)) and any(any(re.search(r'from_(le|be)_bytes$', x) for x in sl.calls) for sl in sls):
                    nz = True
        out.append((c, nz))
    return out


def r02i(ctx, rep, which):
    rep.rule('R02i', 'every reader treats an unchecksummed record the way replay does: if replay verifies a record\'s checksum only when '
                     'the stored checksum is non-zero (0 = written with checksums off), then every other checksum computation reachable '
                     'from open() — the tail-repair scan in particular — is behind the same `stored != 0` test. A scan that verifies '
                     'unconditionally declares the last complete record torn and cuts an acknowledged write off at every reopen')
    for w in which:
        spec = WALS[w]
        cr = ctx.crate(spec['crate'])
        cg = ctx.callgraph([spec['crate']])
        rp, op = _find(cr, spec['replay']), _find(cr, spec['open'])
        if rp is None or op is None:
            rep.violation('R02i', 'anchor-missing', w, '-', 'anchor-missing: open/replay of %s not found' % w)
            continue
        base = re.sub(r'::<[^>]*>', '', spec['struct'])
        mod = base.rsplit('::', 1)[0]
        rfs = [cg.fns[n] for n in sorted(cg.reach([rp.name])) if n in cg.fns and n.startswith(mod + '::')]
        replay_sites = [x for g in rfs for x in _crc_sites(cr.fns, g)]
        convention = bool(replay_sites) and all(nz for (_, nz) in replay_sites)
        ofs = [cg.fns[n] for n in sorted(cg.reach([op.name])) if n in cg.fns and n.startswith(mod + '::') and cg.fns[n] not in rfs]
        n = 0
        for g in ofs:
            for (c, nz) in _crc_sites(cr.fns, g):
                n += 1
                rep.analysed(g)
                if convention and not nz:
                    rep.violation('R02i', g, 'unconditional-checksum', g.loc(c.line),
                                  'this scan verifies a record checksum although the stored checksum may be 0 (records written with '
                                  'checksums disabled), which replay skips: the last complete record of such a log never verifies, is '
                                  'treated as a torn tail and truncated on open')
                else:
                    rep.holds('R02i', g, 'checksum use', 'same convention as replay')
        if n == 0:
            rep.holds('R02i', op, '%s open path' % w, 'no checksum computation outside replay (replay convention: stored != 0 = %s)' % convention)


def r02j(ctx, rep, which):
    """a replaced writer is flushed first."""
    rep.rule('R02j', 'a log writer is emptied before it is replaced: in every WAL method that assigns a new buffered writer to the WAL\'s '
                     'writer field (truncate, rotate), the assignment is unreachable from the entry once the Ok edges of flush() on that '
                     'field are cut. The old BufWriter is dropped by the assignment and flushes whatever it still holds through its old '
                     'handle — which, after File::create on the same path, writes stale records into the fresh log: replay then finds a '
                     'stale checkpoint marker or garbage in front of the records acknowledged afterwards')
    for w in which:
        spec = WALS[w]
        cr = ctx.crate(spec['crate'])
        st = spec['struct']
        n = 0
        for name, f in sorted(cr.fns.items()):
            if not re.sub(r'::<[^>]*>', '', name).startswith(st + '::') or '{closure' in name:
                continue
            ws = [x for x in A.field_writes(f) if x[2] in (st + '.file', st + '.writer') and x[3][1] and x[3][1][-1] == x[2]]
            if not ws:
                continue
            defs, uses = A.Defs(f), A.Uses(f)
            cut = set()
            for c in A.calls(f):
                if not re.search(r'(^|::)flush$|Write>?::flush$', c.resolved) and not re.search(r'Write>?::flush$', c.generic):
                    continue
                a = c.arg_local(0)
                if a is None:
                    continue
                fs, _ = A.origin_fields(f, a, defs)
                fs = A.place_fields(c.args[0][1]) + fs
                if any(x in (st + '.file', st + '.writer') for x in fs):
                    cut |= set(A.call_outcome(f, c, uses).ok) or {(c.bb, c.target)}
            for k, x in enumerate(ws):
                n += 1
                rep.analysed(f)
                R = A.reachable(f, [0], cut_edges=cut) if cut else set(range(len(f.bbs)))
                if x[0] in R:
                    rep.violation('R02j', f, 'writer-replaced-unflushed', f.loc(x[5]),
                                  'the WAL\'s buffered writer is replaced on a path that has not flushed it: its pending bytes are written '
                                  'by the drop, after the file was re-created, into the log that is supposed to be empty')
                else:
                    rep.holds('R02j', f, 'writer replacement#%d' % k, 'flush() Ok is must-pass')
        rep.floor('R02j', '%s writer replacements' % w, n, 1)


def r02k(ctx, rep, which):
    """records reach the file through one buffer, in order."""
    rep.rule('R02k', 'records reach the file in the order they were appended: no WAL method writes to the file underneath its BufWriter '
                     '(write / write_all on the result of BufWriter::get_mut / get_ref) unless the Ok edge of a flush() of that writer is '
                     'must-pass before it. Bytes written around the buffer overtake the records still sitting in it: under batched or '
                     'manual sync a later record is in the file before earlier ones, and a crash image (or an overwrite of one key, small '
                     'then big) replays in the wrong order')
    for w in which:
        spec = WALS[w]
        cr = ctx.crate(spec['crate'])
        st = spec['struct']
        n = 0
        for name, f in sorted(cr.fns.items()):
            if not re.sub(r'::<[^>]*>', '', name).startswith(st + '::') or '{closure' in name:
                continue
            inner = [c for c in A.calls(f) if re.search(r'BufWriter::<W>::(get_mut|get_ref)$', c.resolved)]
            n += 1
            if not inner:
                continue
            defs, uses = A.Defs(f), A.Uses(f)
            roots = {c.dest[0] for c in inner}
            cut = set()
            for c in A.calls(f):
                if re.search(r'Write>?::flush$', c.resolved) or re.search(r'Write>?::flush$', c.generic):
                    cut |= set(A.call_outcome(f, c, uses).ok) or {(c.bb, c.target)}
            R = A.reachable(f, [0], cut_edges=cut) if cut else set(range(len(f.bbs)))
            for c in A.calls(f):
                if not (re.search(r'Write>?::(write_all|write)$', c.resolved) or re.search(r'Write>?::(write_all|write)$', c.generic)) or not c.args or c.args[0][0] == 'k':
                    continue
                sl = A.backward_slice(f, [c.args[0]], defs)
                if (sl.locals & roots) and c.bb in R:
                    rep.analysed(f)
                    rep.violation('R02k', f, 'write-around-the-buffer', f.loc(c.line),
                                  'bytes are written to the file underneath the BufWriter without flushing it first: records still in the '
                                  'buffer end up behind them in the log')
                    break
        rep.holds('R02k', st, 'one buffer', '%d methods checked' % n)
        rep.floor('R02k', '%s methods checked' % w, n, 3)
