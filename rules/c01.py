"""C01 Raft safety — structural clauses R01a–R01e."""
import re
import analyses as A
import lib
import witness
import raft_rules

PS = raft_rules.PS
NET = 'tensor_chain::network::'
RN = 'tensor_chain::raft::RaftNode::'
ASSUMPTIONS = ['election safety / log matching / leader completeness over interleavings are not decided here']

# handlers whose message carries a term but must NOT adopt it (reviewed exceptions)
STEPDOWN_EXCEPTIONS = {
    'tensor_chain::network::PreVote': 'pre-vote exists precisely so that a probing candidate does not disturb terms',
    'tensor_chain::network::TimeoutNow': 'leadership transfer is honoured only at an equal term; it starts an election that bumps the term itself',
}


def _param_struct(f, i):
    ty = f.locals[i]
    return ty[1:] if ty.startswith('&') else ty


def r01b(ctx, rep, cr):
    rep.rule('R01b', 'in handle_request_vote the write voted_for = Some(candidate) has, among the switch edges every path to it must '
                     'take, tests whose operand slices read the stored vote, the request term and current term, the candidate\'s '
                     'last log term/index and the local log\'s last term/index (read directly or inside a helper the test\'s operands come from)')
    f = rep.require_fn('R01b', cr, RN + 'handle_request_vote')
    if f is None:
        return
    defs = A.Defs(f)
    cd = A.control_deps(f)
    dom = A.dominators(f)
    ws = []
    for w in A.field_writes(f):
        if w[2] == PS + '.voted_for' and w[4] and w[4][0] == 'use':
            sig = lib.value_sig(f, defs, w[4][1])
            if 'agg:std::option::Option::Some' in sig:
                ws.append(w)
    if not rep.floor('R01b', 'vote-granting writes', len(ws), 1):
        return
    need = {
        'stored vote': [PS + '.voted_for'],
        'request term': [NET + 'RequestVote.term'],
        'current term': [PS + '.current_term'],
        'candidate last log term': [NET + 'RequestVote.last_log_term'],
        'candidate last log index': [NET + 'RequestVote.last_log_index'],
        'local last log term': [NET + 'LogEntry.term'],
        'local last log index': [NET + 'LogEntry.index'],
    }
    for w in ws:
        nc = A.necessary_condition_sources(f, w[0], defs, cd, dom)
        got = set()
        for (_, _, sl) in nc:
            got |= lib.slice_fields_deep(cr.fns, sl, 'tensor_chain::', depth=2)
        for what, fields in need.items():
            if any(x in got for x in fields):
                rep.holds('R01b', f, what, 'consulted by a necessary condition of the grant (%d must-pass tests)' % len(nc))
            else:
                rep.violation('R01b', f, what.replace(' ', '-'), f.loc(w[5]),
                              'the vote is granted on paths where no must-pass test consults the %s (%s): a vote can be cast twice '
                              'in a term or to a candidate with a stale log' % (what, fields[0].split('::')[-1]))


def r01c(ctx, rep, cr):
    rep.rule('R01c', 'leader: the commit_index write in try_advance_commit_index has a must-pass test reading log[..].term and '
                     'current_term, and its value slices from match_index and quorum_size(); follower: the commit_index write in '
                     'handle_append_entries slices from leader_commit through a min()')
    VS = 'tensor_chain::raft::VolatileState.commit_index'
    f = rep.require_fn('R01c', cr, RN + 'try_advance_commit_index')
    if f is not None:
        defs = A.Defs(f)
        cd = A.control_deps(f)
        ws = [w for w in A.field_writes(f) if w[2] == VS]
        if rep.floor('R01c', 'leader commit_index writes', len(ws), 1):
            for w in ws:
                nc = A.necessary_condition_sources(f, w[0], defs, cd)
                cur = any((NET + 'LogEntry.term') in sl.fields and (PS + '.current_term') in sl.fields for (_, _, sl) in nc)
                if cur:
                    rep.holds('R01c', f, 'current-term rule', 'must-pass test compares the entry term with current_term')
                else:
                    rep.violation('R01c', f, 'current-term-rule', f.loc(w[5]),
                                  'commit_index advances on a path with no must-pass test of log[N].term against current_term '
                                  '(an entry of an older term could be committed by counting replicas)')
                sl = A.backward_slice(f, [w[4][1]], defs) if w[4] and w[4][0] == 'use' else A.Slice()
                mi = 'tensor_chain::raft::LeaderVolatileState.match_index' in sl.fields
                q = any(c.endswith('RaftNode::quorum_size') for c in sl.calls)
                gt = any('Gt' in s2.binops and VS in s2.fields for (_, _, s2) in nc)
                for what, ok in (('match_index', mi), ('quorum_size', q), ('monotone (new > old)', gt)):
                    if ok:
                        rep.holds('R01c', f, what, 'in the slice of the committed index')
                    else:
                        rep.violation('R01c', f, what.split()[0], f.loc(w[5]), 'the committed index does not depend on %s' % what)
    g = rep.require_fn('R01c', cr, RN + 'handle_append_entries')
    if g is not None:
        defs = A.Defs(g)
        ws = [w for w in A.field_writes(g) if w[2] == VS]
        if rep.floor('R01c', 'follower commit_index writes', len(ws), 1):
            for w in ws:
                sl = A.backward_slice(g, [w[4][1]], defs) if w[4] and w[4][0] == 'use' else A.Slice()
                lc = (NET + 'AppendEntries.leader_commit') in sl.fields
                mn = any(re.search(r'Ord>::min$|Ord::min$|cmp::min$', c) for c in sl.calls)
                if lc and mn:
                    rep.holds('R01c', g, 'follower commit', 'min(leader_commit, …)')
                else:
                    rep.violation('R01c', g, 'follower-commit', g.loc(w[5]),
                                  'follower commit_index is not min(leader_commit, …) (leader_commit in slice: %s, min: %s)' % (lc, mn))


def r01d(ctx, rep, cr):
    rep.rule('R01d', 'every handler dispatched from handle_message whose message struct has a `term` field steps down on a higher '
                     'term: a Gt(msg.term, current_term) test whose true edge is a must-pass for a current_term write sliced from '
                     'msg.term and for a role = Follower write (exceptions: PreVote, TimeoutNow, with reasons)')
    hm = rep.require_fn('R01d', cr, RN + 'handle_message')
    if hm is None:
        return
    n = 0
    for c in A.calls(hm):
        h = cr.fns.get(c.resolved)
        if h is None or not c.resolved.startswith(RN + 'handle_'):
            continue
        mty = None
        for i in range(1, h.argc + 1):
            st = _param_struct(h, i)
            adt = cr.adts.get(st)
            if adt and st.startswith(NET) and any(fl[0] == 'term' for fl in adt['variants'][0]['fields']):
                mty = (i, st)
        if mty is None:
            continue
        if mty[1] in STEPDOWN_EXCEPTIONS:
            rep.notes.append('R01d exception %s: %s' % (mty[1], STEPDOWN_EXCEPTIONS[mty[1]]))
            continue
        n += 1
        rep.analysed(h)
        bodies = A.with_closures(cr.fns, h.name)
        ok_term = ok_role = False
        detail = ''
        for f in bodies:
            defs = A.Defs(f)
            tw = [w for w in A.field_writes(f) if w[2] == PS + '.current_term']
            rw = [w for w in A.field_writes(f) if w[2] == 'tensor_chain::raft::LeadershipState.role']
            gt_edges = []
            for i, b in enumerate(f.bbs):
                if b['cleanup'] or b['t'][0] != 'sw':
                    continue
                l = lib.switch_local(f, i)
                if l is None:
                    continue
                sig = lib.cmp_sig(f, defs, l)
                if sig and sig[0] == 'Gt' and (mty[1] + '.term') in sig[1] and (PS + '.current_term') in sig[2]:
                    t = b['t']
                    gt_edges.append((i, t[3]))
            for (a, s) in gt_edges:
                Rcut = A.reachable(f, [0], cut_edges={(a, s)})
                for w in tw:
                    if w[0] not in Rcut and w[4] and w[4][0] == 'use' and (mty[1] + '.term') in lib.value_sig(f, defs, w[4][1]):
                        ok_term = True
                for w in rw:
                    if w[0] not in Rcut and w[4] and w[4][0] == 'use':
                        vs = lib.value_sig(f, defs, w[4][1])
                        if 'agg:tensor_chain::raft::RaftState::Follower' in vs:
                            ok_role = True
            detail = 'Gt tests: %d' % len(gt_edges)
        if ok_term and ok_role:
            rep.holds('R01d', h, mty[1].split('::')[-1], 'adopts the higher term and becomes follower')
        else:
            rep.violation('R01d', h, mty[1].split('::')[-1], h.loc(),
                          'handler for %s carries a term but does not step down on a higher one (term adopted: %s, role=Follower: %s; %s)'
                          % (mty[1].split('::')[-1], ok_term, ok_role, detail))
    rep.floor('R01d', 'term-carrying handlers', n, 5)


def r01e(ctx, rep, cr):
    rep.rule('R01e', 'in handle_append_entries the value of AppendEntriesResponse.match_index on the accepting path, and the bound of '
                     'the follower\'s commit index, have AppendEntries.prev_log_index in their data slice (the acknowledged / committed '
                     'index is prev_log_index + number of entries — the follower may hold a longer divergent suffix, so its own log '
                     'length says nothing about what it shares with the leader)')
    f = rep.require_fn('R01e', cr, RN + 'handle_append_entries')
    if f is None:
        return
    defs = A.Defs(f)
    n = 0
    PLI = NET + 'AppendEntries.prev_log_index'
    for i, b in enumerate(f.bbs):
        if b['cleanup']:
            continue
        for st in b['s']:
            rv = st[1]
            if rv[0] == 'agg' and rv[1] == NET + 'AppendEntriesResponse':
                names = rv[3]
                op = rv[2][names.index('match_index')]
                if op[0] == 'k':
                    continue  # failure responses carry a constant 0
                n += 1
                sl = A.backward_slice(f, [op], defs)
                if PLI in sl.fields:
                    rep.holds('R01e', f, 'match_index', 'slices from prev_log_index')
                else:
                    rep.violation('R01e', f, 'match_index', f.loc(st[2]),
                                  'the acknowledged match_index does not depend on ae.prev_log_index (sources: %s): a follower with a '
                                  'longer, divergent log acknowledges entries it does not share with the leader, which then counts '
                                  'them towards a quorum' % sorted(x.split('::')[-1] for x in sl.fields)[:6])
    rep.floor('R01e', 'non-constant match_index acknowledgements', n, 1)
    VS = 'tensor_chain::raft::VolatileState.commit_index'
    for w in A.field_writes(f):
        if w[2] == VS and w[4] and w[4][0] == 'use':
            sl = A.backward_slice(f, [w[4][1]], defs)
            if PLI in sl.fields:
                rep.holds('R01e', f, 'commit bound', 'slices from prev_log_index')
            else:
                rep.violation('R01e', f, 'commit-bound', f.loc(w[5]),
                              'the follower bounds its commit index by its own log length, not by the last entry known to match the '
                              'leader (prev_log_index + entries): a divergent suffix can be marked committed by a heartbeat')


def r01f(ctx, rep, cr):
    rep.rule('R01f', 'a follower deletes entries from its log only on a term conflict: every Vec::truncate / drain / remove / pop on '
                     'PersistentState.log reachable from handle_append_entries has, among its must-pass tests, a comparison of an '
                     'existing entry\'s term with the incoming entry\'s term taken on its "differs" edge (a stale or reordered '
                     'AppendEntries with a matching prefix must not erase a longer suffix); compaction and snapshot install are exempt')
    import c10
    cg = ctx.callgraph(['tensor_chain'])
    reach = cg.reach([RN + 'handle_append_entries'])
    n = 0
    for name in sorted(reach):
        f = cr.fns.get(name)
        if f is None or not name.startswith('tensor_chain::raft::'):
            continue
        uses = None
        sites = []
        for (bb, idx, fs, dl, line) in A.field_mut_borrows(f):
            if PS + '.log' not in fs:
                continue
            uses = uses or A.Uses(f)
            for u in uses.uses.get(dl, []):
                if u[0] == 'call' and c10.SHRINK.search(u[3].generic):
                    sites.append(u[3])
        if not sites:
            continue
        defs = A.Defs(f)
        cd = A.control_deps(f)
        for c in sites:
            n += 1
            rep.analysed(f)
            ok = False
            for at in lib.must_pass_atoms(cr.fns, f, defs, c.bb):
                if at.kind != 'cmp' or at.op != 'Ne':
                    continue
                s1, s3 = at.side_slices()
                both_terms = (NET + 'LogEntry.term') in s1.fields and (NET + 'LogEntry.term') in s3.fields
                # one side is the stored log, the other the incoming entries
                stored = (PS + '.log') in (s1.fields | s3.fields)
                if both_terms and stored:
                    ok = True
            if ok:
                rep.holds('R01f', f, 'log ' + c.generic.split('::')[-1], 'only on the term-differs edge')
            else:
                rep.violation('R01f', f, 'truncate-without-conflict', f.loc(c.line),
                              'the follower shortens its log (%s) on a path with no must-pass test that an existing entry\'s term differs from the '
                              'incoming one: a delayed AppendEntries carrying an already-matching prefix erases a longer suffix, including entries '
                              'the leader has counted as replicated' % c.generic.split('::')[-1])
    rep.floor('R01f', 'log-shortening sites reachable from handle_append_entries', n, 1)


def r01g(ctx, rep, cr):
    rep.rule('R01g', 'a leadership starts knowing nothing about its followers: every path through RaftNode::become_leader to a return '
                     'assigns LeadershipState.leader_volatile as a whole, with a value that does not derive from the previous '
                     'leader_volatile (fresh next_index / match_index) — or else every function that leaves the Leader role clears '
                     'leader_volatile. Acknowledgements (match_index) from an earlier term must not count towards a quorum in a later one: '
                     'the entries they acknowledged may have been overwritten since')
    LV = 'tensor_chain::raft::LeadershipState.leader_volatile'
    f = rep.require_fn('R01g', cr, 'tensor_chain::raft::RaftNode::become_leader')
    if f is None:
        return
    defs = A.Defs(f)
    ws = [w for w in A.field_writes(f) if w[2] == LV and w[3][1][-1] == LV]
    fresh = []
    for w in ws:
        rv = w[4]
        sl = A.backward_slice(f, A.rvalue_operands(rv), defs) if rv else None
        if sl is not None and LV not in sl.fields:
            fresh.append(w)
    blocks = {w[0] for w in fresh}
    R = A.reachable(f, [0], cut_blocks=blocks)
    rets = [r for r in A.return_blocks(f) if r in R]
    if fresh and not rets:
        rep.holds('R01g', f, 'fresh leader state', 'leader_volatile assigned anew on every path')
        return
    # alternative discipline: every step-down clears it
    ROLE = 'tensor_chain::raft::LeadershipState.role'
    leaky = []
    for name, g in sorted(cr.fns.items()):
        gw = list(A.field_writes(g))
        down = [w for w in gw if w[2] == ROLE and w[3][1][-1] == ROLE and not _is_leader_value(g, w)]
        if down and not any(w[2] == LV and w[3][1][-1] == LV for w in gw):
            leaky.append(lib.short(name))
    if not leaky:
        rep.holds('R01g', f, 'fresh leader state', 'every step-down clears leader_volatile')
    else:
        rep.violation('R01g', f, 'stale-leader-state', f.loc(),
                      'become_leader can return without replacing leader_volatile (it keeps what an earlier leadership left behind), and '
                      '%s leave the Leader role without clearing it: a re-elected node counts match_index values acknowledged in its old '
                      'term towards the quorum and commits an entry that only a minority holds' % ', '.join(leaky[:4]))


def _is_leader_value(g, w):
    rv = w[4]
    if not rv:
        return False
    if rv[0] == 'agg':
        return rv[1].endswith('RaftState::Leader')
    if rv[0] == 'use' and rv[1][0] != 'k':
        d = A.single_def(A.Defs(g), rv[1][1][0])
        return bool(d and d[2] == 'st' and d[3][1][0] == 'agg' and d[3][1][1].endswith('RaftState::Leader'))
    if rv[0] == 'use' and rv[1][0] == 'k':
        return 'Leader' in rv[1][1]
    return False


def _tally_resets(f, defs):
    """blocks that overwrite RaftNode.votes_received as a whole (`*self.votes_received.write() = vec![..]`)"""
    out = set()
    gl = {g.local: g for g in A.guards(f, defs) if any(x.endswith('RaftNode.votes_received') for x in g.lock_fields)}
    for i, b in enumerate(f.bbs):
        if b['cleanup']:
            continue
        for st in b['s']:
            if st[0][1] != ['*']:
                continue
            l = st[0][0]
            for _ in range(6):
                # whole-local definitions only (a store through the pointer is not a definition of the pointer)
                ds = [x for x in defs.defs.get(l, []) if x[2] == 'call' or (x[2] == 'st' and not x[3][0][1])]
                d = ds[0] if len(ds) == 1 else None
                if d is None:
                    break
                if d[2] == 'call' and re.search(r'DerefMut>?::deref_mut$', d[3].generic + ' ' + d[3].resolved) and d[3].arg_local(0) is not None:
                    l = d[3].arg_local(0)
                elif d[2] == 'st' and d[3][1][0] == 'ref':
                    l = d[3][1][1][0]
                elif d[2] == 'st' and d[3][1][0] == 'use' and d[3][1][1][0] != 'k':
                    l = d[3][1][1][1][0]
                elif d[2] == 'call' and re.search(r'(RwLock|Mutex)::<.*>::(write|lock)$', d[3].resolved) and d[3].args and d[3].args[0][0] != 'k':
                    fs, _ = A.origin_fields(f, d[3].args[0][1][0], defs)
                    if any(x.endswith('RaftNode.votes_received') for x in A.place_fields(d[3].args[0][1]) + fs):
                        out.add(i)
                    break
                else:
                    break
                if l in gl:
                    out.add(i)
                    break
    return out


def r01h(ctx, rep, cr):
    rep.rule('R01h', 'every candidacy starts its tally from its own vote: in each RaftNode body that votes for itself in a new term (writes '
                     'PersistentState.voted_for = Some(self.node_id)), every path from that write to a return passes a whole-value write of '
                     'RaftNode.votes_received. A tally that survives into the next term counts votes granted for the old term towards the '
                     'quorum of the new one, while those voters are free to vote for someone else: two leaders in one term')
    n = 0
    for name, f in sorted(cr.fns.items()):
        if not name.startswith(RN):
            continue
        ws = []
        defs = None
        for w in A.field_writes(f):
            if w[2] != PS + '.voted_for' or not w[4]:
                continue
            defs = defs or A.Defs(f)
            ops = [o for o in A.rvalue_operands(w[4]) if o[0] != 'k']
            sl = A.backward_slice(f, ops, defs) if ops else None
            if sl is not None and any(x.endswith('RaftNode.node_id') for x in sl.fields):
                ws.append(w)
        if not ws:
            continue
        resets = _tally_resets(f, defs)
        for k, w in enumerate(ws):
            n += 1
            rep.analysed(f)
            R = A.reachable(f, [w[0]], cut_blocks=resets)
            rets = [r for r in A.return_blocks(f) if r in R and r not in lib.failure_blocks(f)]
            if rets:
                rep.violation('R01h', f, 'tally-not-reset', f.loc(w[5]),
                              'the node votes for itself in a new term and can return without overwriting votes_received: votes collected '
                              'in an earlier term stay in the tally of the new one')
            else:
                rep.holds('R01h', f, 'self-vote#%d' % k, 'votes_received is overwritten on every path (%d reset site(s))' % len(resets))
    rep.floor('R01h', 'self-vote sites', n, 2)


def run(ctx, rep):
    cr = ctx.crate('tensor_chain')
    raft_rules.r01a(ctx, rep)
    r01b(ctx, rep, cr)
    r01c(ctx, rep, cr)
    r01d(ctx, rep, cr)
    r01e(ctx, rep, cr)
    r01f(ctx, rep, cr)
    r01g(ctx, rep, cr)
    r01h(ctx, rep, cr)
    import c10
    c10.r10g(ctx, rep)   # one vote per term across a restart: the logged vote is recovered
    if ctx.tier == 'thorough':
        witness.run(rep, 'R01a', ['RaftPersistentStateIsPrivate'])
