"""C05 Graph structural consistency — structural part."""
import re
import analyses as A
import lib
import lockgraph as LG

GE = 'graph_engine::GraphEngine::'
ASSUMPTIONS = ['exact neighbour / degree / traversal results are not decided here']
GET = ('re', r'^tensor_store::TensorStore::get$')
PUT = ('re', r'^tensor_store::TensorStore::put$')


def rmw_sites(f, defs=None):
    """(get_call, put_call) pairs where the put's value slices from the get's result and
    both use a key with the same sources."""
    defs = defs or A.Defs(f)
    gets = A.calls_to(f, GET)
    puts = A.calls_to(f, PUT)
    out = []
    for p in puts:
        if len(p.args) < 3:
            continue
        sl = A.backward_slice(f, [p.args[2]], defs)
        ksig = lib.value_sig(f, defs, p.args[1]) if p.args[1][0] != 'k' else {p.args[1][1]}
        kpar = A.backward_slice(f, [p.args[1]], defs).params if p.args[1][0] != 'k' else set()
        for g in gets:
            if g.dest[0] in sl.locals:
                gk = A.backward_slice(f, [g.args[1]], defs).params if g.args[1][0] != 'k' else set()
                gsig = lib.value_sig(f, defs, g.args[1]) if g.args[1][0] != 'k' else {g.args[1][1]}
                if (kpar & gk) or (ksig & gsig):
                    out.append((g, p))
    return out


def held_at(f, defs, pos, must=True):
    """lock ids whose guard is live at pos."""
    out = set()
    for g in A.guards(f, defs):
        lid = LG.lock_id(g)
        if lid and A.live_at(A.live_positions(f, g.acq, g.kills, must=must), pos):
            out.add(lid)
    return out


def held_on_entry(cg, name, depth=3, _seen=None):
    """lock ids held at every call site of `name` (intersection over callers, to `depth`)."""
    _seen = _seen or set()
    if name in _seen:
        return set()
    _seen = _seen | {name}
    callers = [c for c in cg.redges.get(name, ()) if c in cg.fns]
    if not callers:
        return set()
    result = None
    for c in sorted(callers):
        f = cg.fns[c]
        defs = A.Defs(f)
        sites = cg.sites.get((c, name), [])
        up = held_on_entry(cg, c, depth - 1, _seen) if depth > 0 else set()
        if not sites:
            held = set(up)   # closure / fn-pointer reference: only what the creator's callers hold
            result = held if result is None else (result & held)
        for s in sites:
            held = held_at(f, defs, (s.bb, len(f.bbs[s.bb]['s']))) | up
            result = held if result is None else (result & held)
    return result or set()


def r05a(ctx, rep, cr, cg):
    rep.rule('R05a', 'adjacency read-modify-write (store.get(k) flowing into store.put(k, …) in add_edge_to_list / remove_edge_from_list) '
                     'runs with a lock guard live from the get to the put — acquired in the function or held at every call site of it '
                     '(callers followed to depth 3, closures count as their creator)')
    n = 0
    for name in ('add_edge_to_list', 'remove_edge_from_list'):
        f = rep.require_fn('R05a', cr, GE + name)
        if f is None:
            continue
        defs = A.Defs(f)
        sites = rmw_sites(f, defs)
        if not sites:
            rep.violation('R05a', f, 'rmw', f.loc(), 'anchor-missing: %s no longer reads and rewrites the adjacency value (rule would be vacuous)' % name)
            continue
        entry = held_on_entry(cg, f.name, 3)
        for (g, p) in sites:
            n += 1
            hg = held_at(f, defs, (g.bb, len(f.bbs[g.bb]['s'])))
            hp = held_at(f, defs, (p.bb, len(f.bbs[p.bb]['s'])))
            common = (hg & hp) | entry
            if common:
                rep.holds('R05a', f, 'get→put', 'under %s' % sorted(common))
            else:
                callers = sorted(lib.short(c) for c in cg.redges.get(f.name, ()))
                rep.violation('R05a', f, 'unlocked-rmw', f.loc(g.line),
                              'the adjacency list is read (line %d) and written back (line %d) with no lock held in the function or at all of '
                              'its call sites (%s): two concurrent updates of one node\'s list lose one of them' % (g.line, p.line, ', '.join(callers)[:200]))
    rep.floor('R05a', 'adjacency RMW sites', n, 2)
    if ctx.tier == 'thorough':
        # discovery scan: other unguarded get→put RMW sites in the crate, listed not armed
        for f in cr.fns.values():
            if f.name in (GE + 'add_edge_to_list', GE + 'remove_edge_from_list'):
                continue
            if not A.calls_to(f, PUT) or not A.calls_to(f, GET):
                continue
            defs = A.Defs(f)
            for (g, p) in rmw_sites(f, defs):
                if not (held_at(f, defs, (g.bb, len(f.bbs[g.bb]['s']))) & held_at(f, defs, (p.bb, len(f.bbs[p.bb]['s'])))):
                    rep.candidate('R05a', f, f.loc(g.line), 'unguarded store get→put on one key')


def _producer(f, defs, l, depth=10):
    """follow refs / derefs / moves back to the call that produced the value."""
    for _ in range(depth):
        d = A.single_def(defs, l)
        if d is None:
            return None
        if d[2] == 'call':
            c = d[3]
            if re.search(r'(Deref::deref|AsRef::as_ref|Borrow::borrow|::as_str|::as_ref|::clone)$', c.generic) and c.arg_local(0) is not None:
                l = c.arg_local(0)
                continue
            return c
        rv = d[3][1]
        if rv[0] == 'ref':
            l = rv[1][0]
        elif rv[0] == 'use' and rv[1][0] in ('c', 'm'):
            l = rv[1][1][0]
        else:
            return None
    return None


def _direct_operand(f, defs, op, depth=8):
    """name of the variable / field an operand directly is (through moves, copies, refs, Not)."""
    names = {v[0]: k for k, v in f.d['names'].items() if not v[1]}
    for _ in range(depth):
        if op[0] == 'k':
            return None
        pl = op[1]
        fs = A.place_fields(pl)
        if fs:
            return fs[-1].split('.')[-1]
        if pl[0] in names:
            return names[pl[0]]
        d = A.single_def(defs, pl[0])
        if d is None or d[2] != 'st':
            return None
        rv = d[3][1]
        if rv[0] == 'use':
            op = rv[1]
        elif rv[0] == 'ref':
            op = ['c', rv[1]]
        elif rv[0] == 'un' and rv[1] == 'Not':
            op = rv[2]
        else:
            return None
    return None


_DOM = {}


def _dom(f):
    if f.name not in _DOM:
        _DOM[f.name] = A.dominators(f)
    return _DOM[f.name]


def _list_calls(f, defs, callee, cd):
    """[(kind, endpoint, condition)] for the adjacency updates of f: calls to add/remove_edge_from_list, and read-modify-writes
    of an adjacency key done in place (the helper inlined, or written out).  condition: 'always' | 'undirected' | 'directed'
    (which value of `directed` the update is control dependent on)."""
    out = []
    sites = [(c, c.arg_local(1)) for c in A.calls_to(f, GE + callee)]
    for (g, p) in rmw_sites(f, defs):
        if p.args[1][0] != 'k':
            sites.append((p, p.args[1][1][0]))
    dom = _dom(f)
    for c, kl in sites:
        pc = _producer(f, defs, kl) if kl is not None else None
        kind, ep = '?', '?'
        if pc is not None:
            if pc.resolved.endswith('outgoing_edges_key'):
                kind = 'out'
            elif pc.resolved.endswith('incoming_edges_key'):
                kind = 'in'
            if pc.args:
                ep = _direct_operand(f, defs, pc.args[0]) or '?'
        if kind == '?' and c.resolved.endswith('TensorStore::put'):
            continue   # an in-place write of something that is not an adjacency list
        cond = 'always'
        frontier, seen = [c.bb], set()
        for _ in range(12):
            nxt = []
            for b in frontier:
                for (a, s_) in cd.get(b, ()):
                    if a in seen or a not in dom[c.bb]:
                        continue   # tests of an earlier loop iteration do not dominate the call
                    seen.add(a)
                    t = f.bbs[a]['t']
                    if t[0] == 'sw' and _direct_operand(f, defs, t[1]) == 'directed':
                        zero = dict(t[2]).get('0')
                        cond = 'undirected' if s_ == zero else 'directed'
                    nxt.append(a)
            frontier = nxt
        out.append((kind, ep, cond))
    return sorted(set(out))


def _modes(calls):
    d = {(k, e) for (k, e, c) in calls if c in ('always', 'directed')}
    u = {(k, e) for (k, e, c) in calls if c in ('always', 'undirected')}
    return d, u


def r05b(ctx, rep, cr):
    rep.rule('R05b', 'create/delete symmetry: the (list kind, endpoint) pairs linked by create_edge (and create_edge_internal) — through '
                     'add_edge_to_list or by an in-place update of the list — for a directed and for an undirected edge equal those unlinked by delete_edge (two for a directed edge, four for an undirected one); the sequential '
                     'and the parallel branch of delete_node issue the same removals')
    fs = {}
    for name, callee in (('create_edge', 'add_edge_to_list'), ('create_edge_internal', 'add_edge_to_list'), ('delete_edge', 'remove_edge_from_list')):
        f = rep.require_fn('R05b', cr, GE + name)
        if f is None:
            return
        fs[name] = _list_calls(f, A.Defs(f), callee, A.control_deps(f))
    for name in ('create_edge', 'create_edge_internal'):
        if _modes(fs[name]) == _modes(fs['delete_edge']) and len(_modes(fs[name])[1]) == 4 and len(_modes(fs[name])[0]) == 2 and \
                all(k != '?' and e != '?' for (k, e, _) in fs[name]):
            rep.holds('R05b', GE + name, 'lists', '%s' % fs[name])
        else:
            rep.violation('R05b', GE + name, 'asymmetry', cr.fns[GE + name].loc(),
                          'edge creation links %s but delete_edge unlinks %s: an edge is left listed (or unlisted) at one endpoint' % (fs[name], fs['delete_edge']))
    dn = rep.require_fn('R05b', cr, GE + 'delete_node')
    if dn is not None:
        seq = _list_calls(dn, A.Defs(dn), 'remove_edge_from_list', A.control_deps(dn))
        par = []
        for h in A.with_closures(cr.fns, dn.name):
            if h.name != dn.name:
                par += _list_calls(h, A.Defs(h), 'remove_edge_from_list', A.control_deps(h))
        par = sorted(par)
        if seq and seq == par:
            rep.holds('R05b', dn, 'branches agree', '%d removals each' % len(seq))
        else:
            rep.violation('R05b', dn, 'branch-mismatch', dn.loc(), 'delete_node\'s sequential branch unlinks %s, the parallel branch %s' % (seq, par))


def r05c(ctx, rep, cr):
    rep.rule('R05c', 'create_edge: the edge record put is reachable only through the true edges of node_exists(from) and node_exists(to)')
    f = rep.require_fn('R05c', cr, GE + 'create_edge')
    if f is None:
        return
    uses = A.Uses(f)
    ne = A.calls_to(f, GE + 'node_exists')
    puts = A.calls_to(f, PUT)
    if not rep.floor('R05c', 'node_exists calls in create_edge', len(ne), 2) or not puts:
        return
    names = {v[0]: k for k, v in f.d['names'].items() if not v[1]}
    for c in ne:
        o = A.call_outcome(f, c, uses)
        who = names.get(c.arg_local(1), '?')
        R = A.reachable(f, [0], cut_edges=o.ok)
        if not o.ok or any(p.bb in R for p in puts):
            rep.violation('R05c', f, 'endpoint-' + who, f.loc(c.line), 'the edge is stored on a path that has not confirmed node_exists(%s)' % who)
        else:
            rep.holds('R05c', f, 'node_exists(%s)' % who, 'must-pass before the edge put')


def r05d(ctx, rep, cr):
    rep.rule('R05d', 'delete_node: the node record delete is preceded on every path by the deletion of the edges read from BOTH of the '
                     'node\'s edge lists, and both list keys are deleted on the success path')
    f = rep.require_fn('R05d', cr, GE + 'delete_node')
    if f is None:
        return
    defs = A.Defs(f)
    gl = A.calls_to(f, GE + 'get_edge_list')
    kinds = set()
    for c in gl:
        sl = A.backward_slice(f, [c.args[1]], defs)
        for x in sl.calls:
            if x.endswith('outgoing_edges_key'):
                kinds.add('out')
            if x.endswith('incoming_edges_key'):
                kinds.add('in')
    if kinds == {'in', 'out'}:
        rep.holds('R05d', f, 'both lists read', '')
    else:
        rep.violation('R05d', f, 'lists-read', f.loc(), 'delete_node reads only the %s edge list(s): edges in the other direction survive the node' % sorted(kinds))
    dels = A.calls_to(f, ('re', r'^tensor_store::TensorStore::delete$'))
    keyed = {}
    for c in dels:
        sl = A.backward_slice(f, [c.args[1]], defs)
        for x in sl.calls:
            for k in ('node_key', 'outgoing_edges_key', 'incoming_edges_key', 'edge_key'):
                if x.endswith('::' + k):
                    keyed.setdefault(k, []).append(c)
    for k in ('node_key', 'outgoing_edges_key', 'incoming_edges_key'):
        if k not in keyed:
            rep.violation('R05d', f, 'delete-' + k, f.loc(), 'delete_node never deletes %s(id)' % k)
        else:
            rep.holds('R05d', f, 'deletes ' + k, '')
    # edge deletion (in the function or its closures) precedes the node delete: node delete not reachable
    # before the edge-loop: approximated by dominance of the get_edge_list reads and presence of edge deletes
    edge_del = bool(keyed.get('edge_key'))
    for h in A.with_closures(cr.fns, f.name):
        if h.name != f.name:
            hd = A.Defs(h)
            for c in A.calls_to(h, ('re', r'^tensor_store::TensorStore::delete$')):
                if any(x.endswith('::edge_key') for x in A.backward_slice(h, [c.args[1]], hd).calls):
                    edge_del = True
    dom = A.dominators(f)
    if 'node_key' in keyed and gl:
        nd = keyed['node_key'][0]
        if all(c.bb in dom[nd.bb] for c in gl) and edge_del:
            rep.holds('R05d', f, 'edges before node', 'edge lists are read before, and edge records deleted, on the way to the node delete')
        else:
            rep.violation('R05d', f, 'node-before-edges', f.loc(nd.line), 'the node record can be deleted without first collecting and deleting its incident edges')


def r05e(ctx, rep, cr):
    rep.rule('R05e', 'delete_node removes every incident edge record: in the sequential loop no path leads from the loop\'s next() → Some '
                     'edge back to the loop head without passing store.delete(edge_key(id)); in the per-edge closure of the parallel branch '
                     'no Ok return is reachable without passing it')
    n = 0
    for h in A.with_closures(cr.fns, GE + 'delete_node'):
        hd = A.Defs(h)
        dels = [c for c in A.calls_to(h, ('re', r'^tensor_store::TensorStore::delete$'))
                if any(x.endswith('::edge_key') for x in A.backward_slice(h, [c.args[1]], hd).calls)]
        if not dels:
            continue
        rep.analysed(h)
        uses = A.Uses(h)
        dbbs = {c.bb for c in dels}
        loops = []
        for c in A.calls(h):
            if (re.search(r'Iterator>?::next$', c.generic) or re.search(r'Iterator>?::next$', c.resolved)) and c.bb in A.reachable(h, [c.target]) and any(d.bb in A.reachable(h, [c.target]) for d in dels):
                loops.append(c)
        if loops:
            for c in loops:
                n += 1
                o = A.call_outcome(h, c, uses)
                starts = [t for (_, t) in o.ok]
                if not starts:
                    rep.unresolved_instance('R05e', h, 'loop@%d' % c.bb, 'Some-edge of the loop iterator not recognised')
                    continue
                R = A.reachable(h, starts, cut_blocks=dbbs)
                if c.bb in R:
                    rep.violation('R05e', h, 'edge-record-kept', h.loc(c.line),
                                  'an iteration of the edge loop can return to the loop head without deleting the edge record (a `continue` / '
                                  'skipped branch): the edge outlives the node it was attached to and no node lists it')
                else:
                    rep.holds('R05e', h, 'every iteration deletes the edge record', '')
        else:
            n += 1
            rets = lib.success_return_reachable(h, [0], cut_blocks=dbbs)
            # an Ok return of the per-edge closure
            ok_rets = []
            for r in rets:
                ok_rets.append(r)
            if ok_rets and _returns_result(h):
                rep.violation('R05e', h, 'edge-record-kept', h.loc(),
                              'the per-edge closure can return Ok without deleting the edge record')
            else:
                rep.holds('R05e', h, 'Ok only after the edge record delete', '')
    rep.floor('R05e', 'edge-deleting bodies of delete_node', n, 2)


def _returns_result(h):
    return h.locals[0].startswith('std::result::Result<') or h.locals[0].startswith('core::result::Result<')


ATOMIC = re.compile(r'atomic::Atomic(::<\w+>|\w+)::(store|load|fetch_\w+|compare_exchange\w*|swap)$')


def r05f(ctx, rep, cr):
    rep.rule('R05f', 'ids are handed out by atomic read-modify-write: no function stores into an AtomicU64 id counter a value computed from '
                     'a load of an atomic (load → add → store; two allocators can read the same value and hand out the same id — the '
                     'second record overwrites the first while the first edge\'s endpoints keep listing the id). Stores of values that '
                     'come from elsewhere (restoring the counters from persisted state) are not affected')
    n = 0
    n_rmw = 0
    for name, f in sorted(cr.fns.items()):
        sites = [c for c in A.calls(f) if ATOMIC.search(c.resolved)]
        if not sites:
            continue
        defs = A.Defs(f)
        loads = [c for c in sites if c.resolved.endswith('::load')]
        for c in sites:
            op = c.resolved.split('::')[-1]
            if op.startswith('fetch_') or op.startswith('compare_exchange'):
                n_rmw += 1
            if op != 'store' or len(c.args) < 2:
                continue
            # only u64 counters (ids), not flags
            if 'u64' not in c.resolved and 'U64' not in c.resolved:
                continue
            n += 1
            rep.analysed(f)
            sl = A.backward_slice(f, [c.args[1]], defs) if c.args[1][0] != 'k' else None
            if sl is not None and any(l.dest[0] in sl.locals for l in loads):
                rep.violation('R05f', f, 'load-add-store', f.loc(c.line),
                              'an id counter is advanced by storing a value computed from an earlier load instead of by fetch_add: a '
                              'concurrent create between the load and the store is handed the same id, its record is overwritten, and a node '
                              'lists an edge that does not touch it')
            else:
                rep.holds('R05f', f, 'store', 'value does not come from a load of the counter')
    rep.notes.append('R05f: %d atomic u64 stores examined, %d atomic read-modify-write sites' % (n, n_rmw))
    rep.floor('R05f', 'atomic read-modify-write sites on counters in graph_engine', n_rmw, 4)


def r05g(ctx, rep, cr):
    rep.rule('R05g', 'adjacency lists are searched, not bisected: no graph_engine function applies an order-assuming operation '
                     '(binary_search*, partition_point, dedup*) to a list taken from a stored tensor\'s `_edges` field unless it sorts that '
                     'list first. The lists are in arrival order: an edge id is allocated before the per-list lock is taken, so concurrent '
                     'creators append out of id order, a bisecting remove then misses the entry and leaves a dangling id behind')
    n = 0
    nf = 0
    for name, f in sorted(cr.fns.items()):
        nf += 1
        oc = lib.order_assuming_calls(f)
        if not oc:
            continue
        defs = A.Defs(f)
        for k, (c, root, sorted_here) in enumerate(oc):
            sl = A.backward_slice(f, [c.args[0]], defs)
            if not (any('_edges' in x for x in sl.consts) or re.search(r'edge_list|edge_from_list|edge_to_list', name)):
                continue
            n += 1
            rep.analysed(f)
            if sorted_here:
                rep.holds('R05g', f, '%s#%d' % (c.resolved.split('::')[-1], k), 'list sorted in the function first')
            else:
                rep.violation('R05g', f, 'bisect-on-arrival-order', f.loc(c.line),
                              '%s is applied to an adjacency list that is only in arrival order: when two creators appended out of id order '
                              'the search misses an id that is present, the unlink is skipped and the list keeps an edge that no longer exists' % c.resolved.split('::')[-1])
    rep.notes.append('R05g: %d functions scanned, %d order-assuming call(s) on adjacency lists' % (nf, n))
    rep.floor('R05g', 'graph_engine functions scanned', nf, 300)
    if n == 0:
        rep.holds('R05g', 'graph_engine', 'order-assuming calls on adjacency lists', 'none')


def _key_root(f, defs, op, depth=10):
    """the local a key operand is, looked through borrows, copies, Deref / as_str / clone"""
    if op[0] == 'k':
        return None
    l = op[1][0]
    for _ in range(depth):
        if 1 <= l <= f.argc:
            return l
        d = A.single_def(defs, l)
        if d is None:
            return l
        if d[2] == 'call':
            c = d[3]
            if re.search(r'(Deref>?::deref|AsRef<.*>>?::as_ref|Borrow<.*>>?::borrow|::as_str|Clone>?::clone)$', c.generic + ' ' + c.resolved) and c.arg_local(0) is not None:
                l = c.arg_local(0)
                continue
            return l
        rv = d[3][1]
        if rv[0] == 'ref':
            l = rv[1][0]
        elif rv[0] == 'use' and rv[1][0] in ('c', 'm'):
            l = rv[1][1][0]
        else:
            return l
    return l


def r05h(ctx, rep, cr, cg):
    rep.rule('R05h', 'the lock that covers an adjacency read-modify-write is the lock of that list: wherever a GraphEngine function reads an '
                     'adjacency list (a key built by outgoing_edges_key / incoming_edges_key, or the key parameter of add_edge_to_list / '
                     'remove_edge_from_list) and writes it back, a guard obtained from adjacency_lock(k) is live from the get to the put, and '
                     'k is the very key that is read and written (same value up to borrows and copies). The stripes are chosen by key: a '
                     'section that updates node:N:in under the stripe of node:N:out does not exclude the writers that lock node:N:in')
    n = 0
    for name, f in sorted(cr.fns.items()):
        if not name.startswith(GE) or '{closure' in name:
            continue
        if not A.calls_to(f, PUT) or not A.calls_to(f, GET):
            continue
        defs = A.Defs(f)
        anchor = name in (GE + 'add_edge_to_list', GE + 'remove_edge_from_list')
        for k_, (g, p) in enumerate(rmw_sites(f, defs)):
            sig = A.backward_slice(f, [p.args[1]], defs).calls if p.args[1][0] != 'k' else set()
            if not anchor and not any(re.search(r'(outgoing|incoming)_edges_key$', x) for x in sig):
                continue
            n += 1
            rep.analysed(f)
            kr = _key_root(f, defs, p.args[1])
            gr = _key_root(f, defs, g.args[1])
            right, wrong = [], []
            for gd in A.guards(f, defs):
                if not any(x.endswith('adjacency_lock.<returned lock>') for x in gd.lock_fields):
                    continue
                live = A.live_positions(f, gd.acq, gd.kills, must=True)
                if not (A.live_at(live, (g.bb, len(f.bbs[g.bb]['s']))) and A.live_at(live, (p.bb, len(f.bbs[p.bb]['s'])))):
                    continue
                d = A.single_def(defs, gd.root)
                lk = _key_root(f, defs, d[3].args[1]) if d and d[2] == 'call' and len(d[3].args) > 1 else None
                (right if lk is not None and lk in (kr, gr) else wrong).append(lk)
            if right:
                rep.holds('R05h', f, 'rmw#%d' % k_, 'under adjacency_lock of the same key')
            elif wrong:
                rep.violation('R05h', f, 'rmw-under-another-lists-lock', f.loc(g.line),
                              'the adjacency list read at line %d and written back at line %d is covered only by the adjacency lock of a '
                              'different key: writers that take this list\'s own stripe run concurrently and entries are lost' % (g.line, p.line))
            elif not anchor and not held_on_entry(cg, f.name, 3):
                rep.violation('R05h', f, 'unlocked-rmw', f.loc(g.line),
                              'an adjacency list is read (line %d) and written back (line %d) with no adjacency lock held' % (g.line, p.line))
            else:
                rep.holds('R05h', f, 'rmw#%d' % k_, 'lock held by the callers (R05a)')
    rep.floor('R05h', 'adjacency RMW sites', n, 2)


def r05i(ctx, rep, cr):
    rep.rule('R05i', 'an edge is listed once: in add_edge_to_list the push of the edge id onto the adjacency list is reachable only through '
                     'the false edge of a membership test of that id over the WHOLE list (contains / any / position on the list that is '
                     'pushed to). Creating an undirected self-loop links the same id twice into one list; a test of the last entry only '
                     'misses the repeat as soon as another thread\'s edge was appended in between, and the degree counts the loop twice')
    f = rep.require_fn('R05i', cr, GE + 'add_edge_to_list')
    if f is None:
        return
    defs, uses = A.Defs(f), A.Uses(f)
    pushes = [c for c in A.calls(f) if re.search(r'Vec::<T, A>::push$', c.generic) and len(c.args) > 1 and c.args[1][0] != 'k' and
              (A.backward_slice(f, [c.args[1]], defs).params & {3})]
    if not rep.floor('R05i', 'pushes of the edge id in add_edge_to_list', len(pushes), 1):
        return
    rep.analysed(f)
    tests = [c for c in A.calls(f) if re.search(r'(slice::<impl \[T\]>|Vec::<T, A>|VecDeque::<T, A>|HashSet::<T, S(, A)?>)::contains$', c.resolved + ' ' + c.generic)
             or re.search(r'Iterator>?::(any|position)$', c.generic)]
    for k, c in enumerate(pushes):
        lroot = A.origin_fields(f, c.arg_local(0), defs)[1] if c.arg_local(0) is not None else None
        cut = set()
        for t in tests:
            troot = A.origin_fields(f, t.arg_local(0), defs)[1] if t.arg_local(0) is not None else None
            same = troot == lroot or (lroot is not None and lroot in A.backward_slice(f, [t.args[0]], defs).locals)
            if same:
                cut |= set(A.call_outcome(f, t, uses).err)   # false: not present
        if cut and c.bb not in A.reachable(f, [0], cut_edges=cut):
            rep.holds('R05i', f, 'push#%d' % k, 'only when the id is nowhere in the list')
        else:
            rep.violation('R05i', f, 'push-without-membership-test', f.loc(c.line),
                          'the edge id is appended without a membership test over the whole list: the second link of an undirected '
                          'self-loop is listed again when it is not the last entry any more')


def run(ctx, rep):
    cr = ctx.crate('graph_engine')
    cg = ctx.callgraph(['graph_engine'])
    r05a(ctx, rep, cr, cg)
    r05b(ctx, rep, cr)
    r05c(ctx, rep, cr)
    r05d(ctx, rep, cr)
    r05e(ctx, rep, cr)
    r05f(ctx, rep, cr)
    r05g(ctx, rep, cr)
    r05h(ctx, rep, cr, cg)
    r05i(ctx, rep, cr)
