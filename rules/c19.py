"""C19 Blob store — refcount atomicity, collector guards, one chunk path."""
import re
import analyses as A
import lib
import c05

ASSUMPTIONS = ['byte equality of reads and checksum detection are value-level and not decided here']
GET = c05.GET
PUT = c05.PUT
EXISTS = ('re', r'^tensor_store::TensorStore::exists$')
DEL = ('re', r'^tensor_store::TensorStore::delete$')


def r19a(ctx, rep, cr, cg):
    rep.rule('R19a', 'chunk reference counts: the read-modify-write of `_refs` in increment_chunk_refs / decrement_chunk_refs, and the '
                     'exists-then-increment-or-put in store_chunk and the collector\'s read-zero-then-delete in gc_cycle, run under a lock held in the function or at every call site '
                     '(callers to depth 3)')
    n = 0
    for name in ('tensor_blob::gc::increment_chunk_refs', 'tensor_blob::gc::decrement_chunk_refs'):
        f = rep.require_fn('R19a', cr, name)
        if f is None:
            continue
        defs = A.Defs(f)
        sites = c05.rmw_sites(f, defs)
        if not sites:
            rep.violation('R19a', f, 'rmw', f.loc(), 'anchor-missing: no get→put read-modify-write of the chunk record')
            continue
        entry = c05.held_on_entry(cg, f.name, 3)
        for (g, p) in sites:
            n += 1
            held = (c05.held_at(f, defs, (g.bb, len(f.bbs[g.bb]['s']))) & c05.held_at(f, defs, (p.bb, len(f.bbs[p.bb]['s'])))) | entry
            if held:
                rep.holds('R19a', f, 'refs rmw', 'under %s' % sorted(held))
            else:
                rep.violation('R19a', f, 'unlocked-rmw', f.loc(g.line),
                              'the chunk\'s `_refs` is read and written back with no lock anywhere on the path: two writers sharing a '
                              'chunk both store refs+1 from the same old value, and a later delete frees a chunk that is still referenced')
    # exists-then-increment-or-put
    for f in cr.fns.values():
        if not f.name.endswith('::store_chunk') and not re.search(r'::store_chunk::\{', f.name):
            continue
        ex = A.calls_to(f, EXISTS)
        inc = A.calls_to(f, 'tensor_blob::gc::increment_chunk_refs')
        puts = A.calls_to(f, PUT)
        if not ex or not (inc or puts):
            continue
        n += 1
        rep.analysed(f)
        defs = A.Defs(f)
        entry = c05.held_on_entry(cg, A.parent_fn(f.name), 3)
        held = None
        for c in ex + inc + puts:
            h = c05.held_at(f, defs, (c.bb, len(f.bbs[c.bb]['s'])))
            held = h if held is None else (held & h)
        if (held or set()) | entry:
            rep.holds('R19a', f, 'exists→inc/put', 'under a lock')
        else:
            rep.violation('R19a', f, 'check-then-act', f.loc(ex[0].line),
                          'chunk existence is tested and then either its count is bumped or a fresh record with refs=1 is stored, with no '
                          'lock over the two steps: two writers of the same new chunk both store refs=1')
    # the collector's test-then-delete
    for fname, f in sorted(cr.fns.items()):
        if A.parent_fn(fname) != 'tensor_blob::gc::GarbageCollector::gc_cycle':
            continue
        gets, dels = A.calls_to(f, GET), A.calls_to(f, DEL)
        if not gets or not dels:
            continue
        n += 1
        rep.analysed(f)
        defs = A.Defs(f)
        held = None
        for c in gets + dels:
            h = c05.held_at(f, defs, (c.bb, len(f.bbs[c.bb]['s'])))
            held = h if held is None else (held & h)
        if held:
            rep.holds('R19a', f, 'refs test→delete', 'under %s' % sorted(held))
        else:
            rep.violation('R19a', f, 'test-then-delete', f.loc(gets[0].line),
                          'the collector reads a chunk\'s `_refs`, finds zero and deletes the chunk with no lock over the two steps: a writer '
                          'that deduplicates against the chunk in between bumps the count of a record that is then deleted, and its '
                          'artifact can no longer be read')
    rep.floor('R19a', 'refcount update sites', n, 3)


def r19b(ctx, rep, cr):
    rep.rule('R19b', 'gc_cycle deletes a chunk only on paths whose must-pass tests compare its `_refs` with zero (== 0, < 1 or <= 0) and '
                     'its `_created` with the minimum age; full_gc deletes only on the false edge of membership in the set built from '
                     'every `_blob:meta:` entry\'s `_chunks`')
    for name, coroutine in (('tensor_blob::gc::GarbageCollector::gc_cycle', True), ('tensor_blob::gc::GarbageCollector::full_gc', True)):
        bodies = A.with_closures(cr.fns, name)
        if not bodies:
            rep.violation('R19b', 'anchor-missing', name, '-', 'anchor-missing: %s not found' % name)
            continue
        found = False
        for f in bodies:
            dels = A.calls_to(f, DEL)
            if not dels:
                continue
            found = True
            rep.analysed(f)
            defs = A.Defs(f)
            cd = A.control_deps(f)
            for k, c in enumerate(dels):
                nc = A.necessary_condition_sources(f, c.bb, defs, cd)
                if name.endswith('gc_cycle'):
                    refs_ok = age_ok = False
                    for (a, s, sl) in nc:
                        consts = {x.strip('"') for x in sl.consts}
                        t = f.bbs[a]['t']
                        l = lib.switch_local(f, a)
                        d = A.single_def(defs, l) if l is not None else None
                        if '_refs' in consts and d and d[2] == 'st' and d[3][1][0] == 'bin':
                            op = d[3][1][1]
                            kconst = [o[1] for o in (d[3][1][2], d[3][1][3]) if o[0] == 'k']
                            # the taken edge must imply refs <= 0
                            taken_nonzero = (s == t[3])
                            implies = (op == 'Eq' and '0_i64' in kconst and taken_nonzero) or \
                                      (op == 'Le' and '0_i64' in kconst and taken_nonzero) or \
                                      (op == 'Lt' and '1_i64' in kconst and taken_nonzero) or \
                                      (op == 'Ne' and '0_i64' in kconst and not taken_nonzero) or \
                                      (op == 'Gt' and '0_i64' in kconst and not taken_nonzero) or \
                                      (op == 'Ge' and '1_i64' in kconst and not taken_nonzero)
                            if implies:
                                refs_ok = True
                        if '_created' in consts and any(x.endswith('GcConfig.min_age') for x in sl.fields):
                            age_ok = True
                    if refs_ok:
                        rep.holds('R19b', f, 'delete#%d refs' % k, 'must-pass test implies refs <= 0')
                    else:
                        rep.violation('R19b', f, 'delete-without-zero-refs', f.loc(c.line),
                                      'gc_cycle can delete a chunk on a path with no must-pass test implying `_refs` <= 0: referenced chunks are collected')
                    if age_ok:
                        rep.holds('R19b', f, 'delete#%d age' % k, 'must-pass test on `_created` vs min_age')
                    else:
                        rep.violation('R19b', f, 'delete-without-age', f.loc(c.line),
                                      'gc_cycle can delete a chunk without the minimum-age test: a chunk just written by an in-flight upload is collected')
                else:
                    mem_ok = False
                    for (a, s, sl) in nc:
                        if any(re.search(r'HashSet::<T, S>::contains$|HashSet.*::contains$', x) for x in sl.calls):
                            t = f.bbs[a]['t']
                            l = lib.switch_local(f, a)
                            # taken edge must be "not contained": either Not(contains) nonzero, or contains zero edge
                            d = A.single_def(defs, l) if l is not None else None
                            neg = bool(d and d[2] == 'st' and d[3][1][0] == 'un' and d[3][1][1] == 'Not')
                            taken_nonzero = (s == t[3])
                            if neg == taken_nonzero:
                                mem_ok = True
                    # the set is built from every meta entry
                    built = any(x.strip('"') == '_blob:meta:' for b in f.bbs for st in b['s'] for o in A.rvalue_operands(st[1]) if o[0] == 'k' for x in [o[1]]) or \
                        any(a[0] == 'k' and a[1].strip('"') == '_blob:meta:' for c2 in A.calls(f) for a in c2.args)
                    if mem_ok and built:
                        rep.holds('R19b', f, 'delete#%d membership' % k, 'only when not in the referenced set built from _blob:meta:')
                    else:
                        rep.violation('R19b', f, 'delete-referenced', f.loc(c.line),
                                      'full_gc can delete a chunk without a must-pass non-membership test in the referenced set (membership test: %s, set built from _blob:meta:: %s)' % (mem_ok, built))
        if not found:
            rep.violation('R19b', name, 'no-delete', '-', 'anchor-missing: %s deletes nothing' % name)


def r19c(ctx, rep, cr, cg):
    rep.rule('R19c', 'BlobStore::put and the streaming writer reach the same store_chunk; delete_artifact decrements once per entry of the '
                     'artifact\'s chunk list, and the metadata delete is reachable only after that loop')
    sc = [n for n in cr.fns if n.endswith('BlobWriter::store_chunk')]
    if not rep.floor('R19c', 'store_chunk functions', len(sc), 1):
        return
    for start in ('tensor_blob::BlobStore::put', 'tensor_blob::streaming::BlobWriter::write', 'tensor_blob::streaming::BlobWriter::finish'):
        bodies = [n for n in cg.fns if n == start or n.startswith(start + '::{')]
        ok = any(cg.path(b, lambda x: x in sc) for b in bodies)
        direct_put = False
        for b in bodies:
            reach = cg.reach([b], cut=set(sc))
            for r in reach:
                g = cg.fns.get(r)
                if g is None or not g.name.startswith('tensor_blob::') :
                    continue
                for c in A.calls_to(g, PUT):
                    if c.args[1][0] != 'k':
                        if any('_blob:chunk:' in x for x in lib.value_sig(g, A.Defs(g), c.args[1])):
                            direct_put = True
        if ok and not direct_put:
            rep.holds('R19c', start, 'chunk path', 'reaches store_chunk, no other chunk writer')
        else:
            rep.violation('R19c', start, 'chunk-path', cg.fns[bodies[0]].loc() if bodies else '-',
                          '%s does not store chunks through store_chunk only (reaches store_chunk: %s, writes chunk keys elsewhere: %s)' % (lib.short(start), ok, direct_put))
    f = rep.require_fn('R19c', cr, 'tensor_blob::integrity::delete_artifact')
    if f is not None:
        defs = A.Defs(f)
        dec = A.calls_to(f, 'tensor_blob::gc::decrement_chunk_refs')
        dels = A.calls_to(f, DEL)
        meta_del = [c for c in dels if c.args[1][0] != 'k' and any('_blob:meta:' in x for x in lib.value_sig(f, defs, c.args[1]))]
        # `chunks.iter().try_for_each(|c| decrement_chunk_refs(store, c))?`: the per-entry decrement lives in a closure handed to an
        # iterator adaptor over the chunk list
        closure_dec = None
        if not dec:
            for h in A.with_closures(cr.fns, f.name):
                if h.name != f.name and A.calls_to(h, 'tensor_blob::gc::decrement_chunk_refs'):
                    for c in A.calls(f):
                        if re.search(r'Iterator::(try_for_each|for_each|try_fold)$', c.generic) and any(
                                lib._closure_of(cr.fns, f, defs, a) is h for a in c.args[1:]):
                            sl0 = A.backward_slice(f, [c.args[0]], defs)
                            if any(x.strip('"') == '_chunks' for x in sl0.consts) or any('_chunks' in x for x in sl0.consts):
                                closure_dec = c
        if closure_dec is not None and meta_del:
            rep.holds('R19c', f, 'decrement per chunk entry', 'through %s over the chunk list' % closure_dec.generic.split('::')[-1])
            gp = [c for c in A.calls_to(f, ('re', r'get_pointers$')) if any('_chunks' in x for a in c.args for x in lib.value_sig(f, defs, a))]
            if gp and meta_del[0].bb not in A.reachable(f, [0], cut_blocks={c.bb for c in gp}):
                rep.holds('R19c', f, 'metadata delete last', 'after the chunk list was walked and decremented')
            else:
                rep.violation('R19c', f, 'meta-delete-order', f.loc(meta_del[0].line), 'the artifact metadata can be deleted without first walking its chunk list')
            return
        if not dec or not meta_del:
            rep.violation('R19c', f, 'shape', f.loc(), 'anchor-missing: delete_artifact no longer decrements (%d) / deletes metadata (%d)' % (len(dec), len(meta_del)))
        else:
            # the decrement's key comes from iterating `_chunks`
            sl = A.backward_slice(f, [dec[0].args[1]], defs)
            per_entry = any(x.strip('"') == '_chunks' for x in sl.consts) and any(re.search(r'Iterator>::next$', x) for x in sl.calls)
            uses = A.Uses(f)
            ok_edges = A.call_outcome(f, dec[0], uses).ok
            in_loop = dec[0].bb in A.reachable(f, [dec[0].target])
            if per_entry and in_loop:
                rep.holds('R19c', f, 'decrement per chunk entry', '')
            else:
                rep.violation('R19c', f, 'decrement', f.loc(dec[0].line), 'refs are not decremented once per entry of `_chunks` (iterates chunks: %s, in a loop: %s)' % (per_entry, in_loop))
            # metadata delete after the loop: not reachable from entry without passing the `_chunks` read
            gp = [c for c in A.calls_to(f, ('re', r'get_pointers$')) if any(a[0] == 'k' and a[1].strip('"') == '_chunks' for a in c.args) or
                  any('_chunks' in x for x in lib.value_sig(f, defs, c.args[1]) if len(c.args) > 1)]
            if gp and all(meta_del[0].bb not in A.reachable(f, [0], cut_blocks={c.bb for c in gp}) for _ in [0]):
                rep.holds('R19c', f, 'metadata delete last', 'after the chunk list was read and decremented')
            else:
                rep.violation('R19c', f, 'meta-delete-order', f.loc(meta_del[0].line), 'the artifact metadata can be deleted without first walking its chunk list')


def r19d(ctx, rep, cr):
    rep.rule('R19d', 'one reference per listed occurrence: every push onto BlobWriter.chunks (the list that becomes the artifact\'s `_chunks`, '
                     'which delete_artifact walks decrementing once per entry) is unreachable from the function entry once the Ok-edges of '
                     'increment_chunk_refs and of the TensorStore::put that writes a fresh `_refs` = 1 record are cut')
    n = 0
    for name, f in sorted(cr.fns.items()):
        pushes = []
        defs = None
        for c in A.calls(f):
            if not re.search(r'Vec::<T, A>::(push|insert|extend\w*)$', c.generic) or not c.args or c.args[0][0] == 'k':
                continue
            defs = defs or A.Defs(f)
            fs = A.place_fields(c.args[0][1])
            if not fs:
                fs, _ = A.origin_fields(f, c.args[0][1][0], defs)
            if any(x.endswith('BlobWriter.chunks') for x in fs):
                pushes.append(c)
        if not pushes:
            continue
        rep.analysed(f)
        uses = A.Uses(f)
        cut = set()
        for c in A.calls_to(f, 'tensor_blob::gc::increment_chunk_refs') + A.calls_to(f, PUT):
            cut |= A.call_outcome(f, c, uses).ok
        R = A.reachable(f, [0], cut_edges=cut)
        for c in pushes:
            n += 1
            if c.bb in R:
                rep.violation('R19d', f, 'push-without-ref', f.loc(c.line),
                              'a chunk key is appended to the artifact\'s chunk list on a path that neither incremented the chunk\'s `_refs` nor '
                              'stored a fresh record: delete_artifact later decrements once per listed entry, so the count reaches zero while '
                              'another artifact still lists the chunk and GC deletes it')
            else:
                rep.holds('R19d', f, 'push after increment-or-put', '')
    rep.floor('R19d', 'pushes onto BlobWriter.chunks', n, 1)


def r19e(ctx, rep, cr):
    rep.rule('R19e', 'chunks leave the writer in the order the bytes arrived: in BlobWriter::write and ::finish every chunk handed to '
                     'store_chunk is cut from BlobWriter.buffer (all incoming bytes go through the one buffer), or the call is reachable only '
                     'through the true edge of buffer.is_empty() — a chunk cut straight from the caller\'s slice while older bytes are '
                     'pending is stored ahead of them and the artifact reads back permuted')
    n = 0
    for base in ('tensor_blob::streaming::BlobWriter::write', 'tensor_blob::streaming::BlobWriter::finish'):
        for f in A.with_closures(cr.fns, base):
            sc = A.calls_to(f, ('re', r'BlobWriter::store_chunk$'))
            if not sc:
                continue
            rep.analysed(f)
            defs = A.Defs(f)
            for k, c in enumerate(sc):
                n += 1
                pf = lib.provenance_fields(f, defs, c.args[1])[0] if len(c.args) > 1 and c.args[1][0] != 'k' else set()
                if any(x.endswith('BlobWriter.buffer') for x in pf):
                    rep.holds('R19e', f, 'store_chunk#%d' % k, 'data taken from the buffer')
                    continue
                guarded = False
                for (a, s_) in A.must_pass_edges(f, c.bb):
                    l = lib.switch_local(f, a)
                    d = A.single_def(defs, l) if l is not None else None
                    if d and d[2] == 'call' and d[3].resolved.endswith('::is_empty'):
                        rs = A.backward_slice(f, [d[3].args[0]], defs) if d[3].args and d[3].args[0][0] != 'k' else None
                        t = f.bbs[a]['t']
                        if rs is not None and any(x.endswith('BlobWriter.buffer') for x in rs.fields) and all(v == '0' for v, _ in t[2]) and s_ == t[3]:
                            guarded = True
                if guarded:
                    rep.holds('R19e', f, 'store_chunk#%d' % k, 'only when the buffer is empty')
                else:
                    rep.violation('R19e', f, 'chunk-bypasses-buffer', f.loc(c.line),
                                  'a chunk that was not cut from the writer\'s buffer is stored while earlier bytes may still be pending in '
                                  'it: a small write followed by a write of a whole chunk stores the later bytes first, get() returns a '
                                  'permutation of what was written and verify() fails on an undamaged artifact')
    rep.floor('R19e', 'store_chunk calls in the streaming writer', n, 2)


def r19f(ctx, rep, cr):
    rep.rule('R19f', 'every count is per listed occurrence: wherever reference counts are recomputed from the artifacts\' `_chunks` lists '
                     '(integrity::repair), the key that is counted comes straight out of the list — its data path passes through no '
                     'de-duplicating collection (HashSet / BTreeSet) or dedup call. The writer adds one reference per occurrence and '
                     'delete_artifact removes one per occurrence; a recount of one per artifact leaves a chunk repeated inside an artifact '
                     'short, and deleting that artifact frees a chunk another artifact still lists')
    n = 0
    for name, f in sorted(cr.fns.items()):
        if '{closure' in name:
            continue
        gp0 = A.calls_to(f, ('re', r'get_pointers$'))
        if not gp0:
            continue
        defs = A.Defs(f)
        gp = [c for c in gp0 if any('_chunks' in x for a in c.args for x in lib.value_sig(f, defs, a))]
        if not gp:
            continue
        # counting sites: map.entry(key).or_insert(..) / or_default() whose slot is incremented
        for c in A.calls(f):
            if not re.search(r'hash_map::Entry<.*>::(or_insert|or_default|or_insert_with)$|Entry::<.*>::(or_insert|or_default|or_insert_with)$|::(or_insert|or_default)$', c.resolved):
                continue
            slot = c.dest[0]
            inc = False
            for b in f.bbs:
                for st in b['s']:
                    rv = st[1]
                    if rv[0] == 'bin' and rv[1] in ('Add', 'AddWithOverflow'):
                        ls = set()
                        for op in (rv[2], rv[3]):
                            if op[0] != 'k':
                                ls.add(op[1][0])
                        if slot in ls or any(slot in (defs.ref_targets(x) | {x}) for x in ls):
                            inc = True
            if not inc:
                continue
            # the key: argument of the entry() call that produced the Entry
            ed = A.single_def(defs, c.args[0][1][0]) if c.args and c.args[0][0] != 'k' else None
            if not ed or ed[2] != 'call' or len(ed[3].args) < 2:
                continue
            key = ed[3].args[1]
            sl = A.backward_slice(f, [key], defs)
            if not any(g.dest[0] in sl.locals for g in gp):
                continue
            n += 1
            rep.analysed(f)
            lib.provenance_fields(f, defs, key)
            pl = lib.provenance_fields.last_locals
            dedup = sorted({f.locals[l] for l in pl if re.search(r'(Hash|BTree|Index)Set<', f.locals[l])}) or \
                sorted(x for x in sl.calls if re.search(r'::(dedup|dedup_by|dedup_by_key|unique)$', x))
            if dedup:
                rep.violation('R19f', f, 'count-per-artifact', f.loc(c.line),
                              'the recount takes its keys from a de-duplicated view of `_chunks` (%s): a chunk that occurs twice in one '
                              'artifact is counted once, while store_chunk added and delete_artifact removes one reference per occurrence' % dedup[0][:60])
            else:
                rep.holds('R19f', f, 'recount per occurrence', 'keys come straight from the `_chunks` list')
    rep.floor('R19f', 'reference recount sites', n, 1)


def r19g(ctx, rep, cr):
    rep.rule('R19g', 'verification judges the bytes that get() would return: in integrity::verify_artifact and integrity::verify_chunk every '
                     'Ok(..) verdict is computed from a hash taken over chunk payloads (its def-use slice contains StreamingHasher::finalize '
                     'or chunker::compute_hash fed from `_data`). A verdict derived from names alone — the hash inside the chunk key compared '
                     'with the recorded checksum — says what the bytes were when they were written, not what is stored now')
    n = 0
    for nm in ('tensor_blob::integrity::verify_artifact', 'tensor_blob::integrity::verify_chunk'):
        f = rep.require_fn('R19g', cr, nm)
        if f is None:
            continue
        defs = A.Defs(f)
        for i, b in enumerate(f.bbs):
            if b['cleanup']:
                continue
            for st in b['s']:
                rv = st[1]
                if rv[0] != 'agg' or not rv[1].endswith('Result::Ok') or st[0][1]:
                    continue
                # only verdicts: an Ok that reaches the return slot
                if st[0][0] != 0 and not any(s2[0] == [0, []] and s2[1][0] == 'use' and s2[1][1][0] in ('c', 'm') and s2[1][1][1][0] == st[0][0]
                                              for b2 in f.bbs for s2 in b2['s']):
                    continue
                n += 1
                rep.analysed(f)
                op = rv[2][0] if rv[2] else None
                hashed = False
                if op is not None and op[0] != 'k':
                    sl = A.backward_slice(f, [op], defs)
                    hashed = any(re.search(r'StreamingHasher::finalize$|chunker::compute_hash$', x) for x in sl.calls)
                if hashed:
                    rep.holds('R19g', f, 'verdict@%d' % st[2], 'computed from a payload hash')
                else:
                    rep.violation('R19g', f, 'verdict-without-payload-hash', f.loc(st[2]),
                                  'a verdict is returned that does not depend on a hash of the stored payload: altered chunk bytes verify as intact')
    rep.floor('R19g', 'verdicts of the verifiers', n, 2)


def run(ctx, rep):
    cr = ctx.crate('tensor_blob')
    cg = ctx.callgraph(['tensor_blob'])
    r19a(ctx, rep, cr, cg)
    r19b(ctx, rep, cr)
    r19c(ctx, rep, cr, cg)
    r19d(ctx, rep, cr)
    r19e(ctx, rep, cr)
    r19f(ctx, rep, cr)
    r19g(ctx, rep, cr)
