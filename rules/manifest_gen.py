#!/usr/bin/env python3
"""Regenerates /verif/MANIFEST.json from the table below (run after adding a check)."""
import json, os, sys

VERIF = os.path.dirname(os.path.dirname(os.path.abspath(__file__)))

NOTE = ('decides the structural necessary conditions named in the rules (DESIGN §3), not the behaviour as a whole; '
        'trusted base: rustc nightly MIR at mir-opt-level=0 of the --lib build with default features, the fact extractor '
        '(driver/), the analyses in rules/analyses.py')

CHECKS = {
    # id: (design_ref, clauses text, technique)
    'C01': ('§3 C01', 'R01a persist-before-mutate of term/vote, R01b the vote grant has must-pass tests consulting stored vote, terms '
            'and both logs\' last term/index, R01c commit guard (current-term test must-pass; value from match_index and quorum), '
            'R01d every term-carrying handler steps down on a higher term, R01e acknowledged match_index and follower commit bound '
            'slice from prev_log_index',
            'MIR cut-reachability, must-pass switch edges, backward data slices, sibling cross-check'),
    'C02': ('§3 C02', 'R02a log-before-apply (apply reachable only through the Ok-edge of the WAL append) and fsync discipline of '
            'TensorWal::append/maybe_sync/sync/fsync, R02b tail repair on reopen, R02c checkpoint order snapshot→marker→truncate and '
            'the Checkpoint arm of recovery, R02d rotation writer/reader agreement, R02e replay stops at the first bad record',
            'MIR cut-reachability with constant propagation, call-graph reachability, must-pass-through'),
    'C03': ('§3 C03', 'R03a writes applied only from the participant\'s commit and no store write outside the undo log on prepare/abort/'
            'cleanup/recover, R03b remove→apply→release in the participant, R03c decision discipline over every write to the '
            'transaction phase (never reversed; commit only through all_voted ∧ all_yes), R03d decisions on Prepared transactions and '
            'completion are logged before release, R03e no unlogged removal of a logged transaction',
            'MIR reachability under a phase assumption (abstract evaluation of phase tests), cut-reachability over Ok-edges, call-graph effect rule'),
    'C04': ('§3 C04', 'R04a every candidate row materialised in a Condition-taking method is handed to Condition::evaluate* before the body '
            'moves on, fetched rows (index hits or scans) reach a success return only through an evaluating loop/closure, and the '
            'columnar path takes its rows from the vectorised filter of the same condition; R04b the three row evaluators agree on '
            'the comparator class of every variant and every vectorised arm calls the simd filter of its variant and applies the '
            'alive mask; R04c every row-mutating engine function maintains both index kinds',
            'must-follow on MIR CFG, enum-dispatch table agreement across sibling evaluators, constant-propagating reachability'),
    'C05': ('§3 C05', 'R05a the adjacency read-modify-write runs under a lock held in the function or at every call site, R05b '
            'create/delete link the same (list, endpoint, undirected-only) triples and delete_node\'s two branches agree, R05c the edge '
            'record is stored only after node_exists of both endpoints, R05d delete_node reads both edge lists, deletes incident edges '
            'and both list keys before/with the node',
            'RMW detection by def-use slices, guard live ranges with held-on-entry summaries over the call graph, table agreement'),
    'C06': ('§3 C06', 'R06a every mutation of an embedding key (directly or in a closure) is followed or preceded by '
            'invalidate_hnsw_cache of the matching collection on all success paths (vector-preserving metadata rewrites exempt), '
            'R06b the cache has two writers only and readers take index and key list from one guard acquisition',
            'must-pass-through on MIR CFG, def-use slices for key provenance, who-may-write via guard kinds'),
    'C07': ('§3 C07', 'R07a every slab is saved and restored by name in the v3 snapshot and the compressed snapshot reaches every slab in use, '
            'R07b the compressed writer/reader variant tables of ScalarValue compose to the identity with payloads copied not rebuilt, '
            'R07c save functions write a derived temp sibling and rename it into place last, only after all writes succeeded, '
            'R07d header byte layout agrees between writer and reader and every loader passes validate',
            'aggregate / field-set agreement, enum dispatch tables, cut-reachability, constant extraction from MIR'),
    'C08': ('§3 C08', 'R08a every slab field that SlabRouter::clear wipes and that code outside the router writes through is written '
            'again on the restore path of TensorStore::restore_from_bytes (clear set ⊆ refill set over fields in use, across all workspace crates)',
            'field read/write sets over the call graph, whole-workspace who-uses-field scan'),
    'C09': ('§3 C09', 'R09a every transactional call tests is_active before any effect, R09b undo is recorded before the change '
            '(update/delete) and on every success path (insert), R09c row locks are taken before any change and every tx mutator '
            'locks the rows it changes (sibling cross-check), R09d each undo arm calls the inverse of every forward operation class, '
            'R09e commit and rollback release locks and forget the transaction on every exit',
            'cut-reachability over outcome edges, enum-dispatch table agreement, sibling cross-check'),
    'C10': ('§3 C10', 'R01a persist-before-mutate of term/vote (cut-reachability over Ok-edges of the persist call, all write sites '
            'in the workspace), R10a every log growth site reaches success only through a successful persist, R10c recovery '
            'table covers every record the node writes and keeps the first vote of a term, R02b tail repair on reopen, R02e replay '
            'stops at the first bad record',
            'MIR dominance / cut-reachability, who-may-write, writer/reader table agreement'),
}

CHECKS['C11'] = ('§3 C11', 'R11a one shard lock per MetadataSlab operation, selected by shard_index(key), covering every map operation; R11b the WAL '
                 'guard is still live at the in-memory apply of a durable write; R11c multi-slab arms of SlabRouter::{put,get,delete} hold '
                 'one guard across the slabs, and delete decides its result from the removal itself',
                 'guard live ranges (must/may) over MIR, enum-dispatch arm partition, outcome use analysis')
CHECKS['C12'] = ('§3 C12', 'R12a check-all-then-acquire-all inside one critical section of both lock tables and one acquisition order in '
                 'every function that takes both, R12b every removal from pending releases each Yes-vote handle with wait-graph cleanup and '
                 'lock table / index are updated together, R12c the deadlock victim is drawn from the cycle argument (provenance of the '
                 'return value through selectors and closures), R12d the lock-acquisition graph of the coordinator is acyclic',
                 'guard live ranges (must/may), lock-order graph over the call graph with SCCs, value provenance')
CHECKS['C13'] = ('§3 C13', 'R02b tail repair of the transaction log on reopen, R02e replay stops at the first bad record, R03c/R03d/R03e '
                 'decision and completion logging discipline of the coordinator, R13a phase table agreement between what the coordinator '
                 'logs and what recovery restores (with lock handles), R13b recovery consumes every list its classification fills',
                 'MIR reachability under a phase assumption, writer/reader table agreement, field read/write sets')

CHECKS['C14'] = ('§3 C14', 'R14a in every Vault operation on (requester, key) no sensitive call (cipher, blob store, store get/put/delete on a '
                 'vault key, grant edge add/delete) is reachable unless an authorisation guard passed, at the operation\'s minimum level; '
                 'R14d every access decision is preceded by the expired-grant sweep; R14b traversals enqueue only allow-listed edge '
                 'types; R14c store keys, stored fields, audit records, errors and log events are reachable from secret names / values '
                 'only through the obfuscator / cipher',
                 'cut-reachability over guard outcome edges, taint slices with sanitizer cuts, caller-side guard summaries')
CHECKS['C15'] = ('§3 C15', 'R15a precedence and associativity decided from the two binding-power tables, the documented level tables, the '
                 'token→operator map and the shape of both Pratt loops (a proof over a finite table), R15b every recursion cycle '
                 'reachable from the parse entry points passes a depth-guard function, R15c every statement kind is dispatched to an arm '
                 'that reaches a call',
                 'table extraction from MIR switches, call-graph SCCs, doc-table agreement')
CHECKS['C16'] = ('§3 C16', 'R16a append stores a block only after must-pass checks of height, predecessor hash, tx root and signature, and the '
                 'full-chain verifier checks the same set per block; R16b append is one critical section under append_lock; R16c the '
                 'store pre-image of a commit is taken and restored under one lock and every failed append restores it; R16d the state '
                 'root hashes only sorted iterations',
                 'must-pass switch edges, cut-reachability, guard live ranges with held-on-entry, sibling validator cross-check')
CHECKS['C17'] = ('§3 C17', 'R17a the newer-wins order reads every replicated view field (health, incarnation, timestamp) on both operands, '
                 'R17b every logical-clock write is old(+max)+positive constant, R17c incarnation is written only in refute under a '
                 'new > old necessary condition and merge inserts only under supersedes',
                 'field read sets, rvalue shape via def chains, must-pass switch edges, who-may-write')
CHECKS['C19'] = ('§3 C19', 'R19a the `_refs` read-modify-write and the exists-then-increment-or-put run under a lock held in the function or at '
                 'every call site, R19b gc_cycle deletes only under must-pass tests implying refs <= 0 and minimum age, full_gc only on '
                 'non-membership in the set built from every artifact, R19c put and the streaming writer share one store_chunk path and '
                 'delete_artifact decrements per chunk entry before removing metadata',
                 'RMW detection by def-use slices, held-on-entry lock summaries, must-pass switch edges with interval implication')

CHECKS['C20'] = ('§3 C20', 'R20a every allocation sized by a wire-decoded length in the frame readers and decompress sits behind a must-pass '
                 'comparison that implies length <= the declared limit, R20b every encode/decode/read body compares with max_frame_length '
                 'and frame_flags/method_from_flags are inverse tables, R20c lossless codecs have no saturating/clamping operation on the '
                 'payload def-use path',
                 'must-pass switch edges with interval implication, def-use slices, table extraction from MIR switches')

NOT_APPLICABLE = {
    'C18': 'optimality and textbook agreement of path/graph algorithms are facts about computed values on arbitrary graphs; '
           'no clause is visible in the code\'s shape without freezing the algorithm (DESIGN §3 C18)',
}

ALL = ['C%02d' % i for i in range(1, 21)]


def main():
    checks = []
    for pid in ALL:
        if pid not in CHECKS:
            continue
        ref, text, tech = CHECKS[pid]
        # the clause list is taken from the checker's own rule descriptions when a report exists
        rp = os.path.join(VERIF, 'reports', pid + '.txt')
        if os.path.exists(rp):
            rules = []
            for l in open(rp):
                if l.startswith('RULE ') and not l.startswith('RULE SELF'):
                    rid, t = l[5:].split(': ', 1)
                    t = t.strip()
                    cut = t.find(': ', 0, 60)
                    rules.append('%s %s' % (rid, (t[:200] + '…') if len(t) > 200 else t))
            if rules:
                text = '; '.join(rules)
        checks.append({
            'property_id': pid,
            'quick_cmd': './nv check %s --tier quick' % pid,
            'thorough_cmd': './nv check %s --tier thorough' % pid,
            'evidence_file': 'evidence/%s.json' % pid,
            'replay_cmd_template': 'cat {path}',
            'engine': 'nv-static',
            'level_claimed': {
                'category': 'other',
                'text': 'static analysis, exhaustive over every function / call site / CFG path of the anchored crates: ' + text +
                        '. A violation is a positive refutation on the CFG (a named function, site and path); the behavioural '
                        'property itself (over schedules, crash points, histories, values) is not decided.',
                'design_ref': ref,
            },
            'level_note': NOTE,
            'technique': 'static analysis: ' + tech,
        })
    na = []
    for pid in ALL:
        if pid in CHECKS:
            continue
        reason = NOT_APPLICABLE.get(pid, 'rules designed (DESIGN §3) but not built yet; not claimed until the check exists')
        na.append({'property_id': pid, 'reason': reason})
    m = {
        'version': 1,
        'setup_cmd': './nv setup',
        'hooks': {
            'guard': 'neumann_verif',
            'enable': 'none needed: static analysis reads the source; no hook commits exist',
            'baseline_off_cmd': 'cd /repo && cargo nextest run --workspace --no-fail-fast --test-threads 8 --offline || cargo test --workspace --no-fail-fast --offline',
            'source_commits': [],
            'add_only': True,
        },
        'engines': [
            {'name': 'nv-static', 'path': 'nv',
             'serves_properties': [c['property_id'] for c in checks],
             'kind_free_text': 'rustc_private MIR fact extractor (driver/) + Python rule evaluator (rules/): dominators, '
                               'cut-reachability, guard live ranges, def-use slices, field write sets, call graph / SCC, table agreement'},
        ],
        'checks': checks,
        'not_applicable': na,
        'notes': 'All checks share one fact extraction per source-tree hash (cached under .cache/, keyed by a hash of /repo\'s sources). '
                 'Known findings are in known_findings.txt; violation reports are written to reports/<id>.txt.',
    }
    with open(os.path.join(VERIF, 'MANIFEST.json'), 'w') as fh:
        json.dump(m, fh, indent=1)
    print('wrote MANIFEST.json with %d checks, %d not_applicable' % (len(checks), len(na)))


if __name__ == '__main__':
    main()
