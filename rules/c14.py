"""C14 Vault — check first, expiry where access is checked, traversal allow-list, nothing readable at rest."""
import re
import analyses as A
import lib

V = 'tensor_vault::vault::Vault::'
AC = 'tensor_vault::access::'
ASSUMPTIONS = ['the access model over long histories and cryptographic strength are not decided here',
               'slices are intraprocedural and flow-insensitive: a sanitizer anywhere on the def-use path counts']
CHECKS = re.compile(r'vault::Vault::(check_access|check_access_with_permission)$')
HAS = re.compile(r'vault::Vault::has_access$')
GETPERM = re.compile(r'vault::Vault::get_permission$')
CLEANUP = V + 'cleanup_expired_grants'
SENS_DIRECT = re.compile(r'encryption::Cipher::(encrypt|decrypt)\w*$|vault::Vault::(store_blob|add_entity_graph_edge|delete_graph_edge)$')
STORE_OP = re.compile(r'^tensor_store::TensorStore::(get|put|delete)$')
KEYFN = re.compile(r'vault::Vault::(vault_key|blob_key)$')
# minimum level by operation (the property's own words: read/list → Read, overwrite/rotate → Write, delete/grant → Admin)
LEVEL = {'Read': 1, 'Write': 2, 'Admin': 3}
MIN_LEVEL = {'get': 'Read', 'get_version': 'Read', 'list_versions': 'Read', 'current_version': 'Read', 'batch_get_single': 'Read',
             'changelog': 'Read', 'get_expiration': 'Read', 'set_inner': 'Write', 'rotate': 'Write', 'delete': 'Admin',
             'grant_with_permission': 'Admin', 'revoke': 'Admin', 'clear_expiration': 'Admin'}


def _named(f):
    return {k: v[0] for k, v in f.d['names'].items() if not v[1] and 1 <= v[0] <= f.argc}


def _perm_const(f, defs, op):
    if op[0] == 'k':
        m = re.search(r'promoted\[(\d+)\]', op[1])
        if m:
            for rv in f.d['promoted'][int(m.group(1))]:
                if rv[0] == 'agg' and 'Permission::' in rv[1]:
                    return rv[1].split('::')[-1]
        m = re.search(r'Permission::(\w+)', op[1])
        return m.group(1) if m else None
    d = A.single_def(defs, op[1][0])
    if d and d[2] == 'st':
        rv = d[3][1]
        if rv[0] == 'agg' and 'Permission::' in rv[1]:
            return rv[1].split('::')[-1]
        if rv[0] == 'use':
            return _perm_const(f, defs, rv[1])
    return None


def _guard_edges(f, defs, uses, names):
    """passing edges of authorisation guards on (requester, key) in f."""
    edges = set()
    kinds = []
    req = names.get('requester', names.get('parent'))
    for c in A.calls(f):
        if CHECKS.search(c.resolved):
            o = A.call_outcome(f, c, uses)
            edges |= o.ok
            if o.returned:
                kinds.append('check-returned')
            kinds.append('check_access')
        elif HAS.search(c.resolved):
            o = A.call_outcome(f, c, uses)
            edges |= o.ok
            kinds.append('has_access')
        elif GETPERM.search(c.resolved):
            # get_permission(..) → Some(p) and p.allows(level): the Some edge is the guard (allows() narrows further)
            o = A.call_outcome(f, c, uses)
            edges |= o.ok
            kinds.append('get_permission')
    # requester == ROOT
    for i, b in enumerate(f.bbs):
        if b['cleanup'] or b['t'][0] != 'sw':
            continue
        l = lib.switch_local(f, i)
        d = A.single_def(defs, l) if l is not None else None
        if d and d[2] == 'call' and re.search(r'PartialEq(<.*>)?>?::(eq|ne)$', d[3].generic):
            sl = A.backward_slice(f, d[3].args, defs)
            consts = set(sl.consts)
            for k in list(sl.consts):
                m = re.search(r'promoted\[(\d+)\]', k)
                if m and int(m.group(1)) < len(f.d.get('promoted', [])):
                    for rv in f.d['promoted'][int(m.group(1))]:
                        if rv[0] == 'use' and rv[1][0] == 'k':
                            consts.add(rv[1][1])
            if req in sl.params and any('root' in k.lower() for k in consts | set(sl.calls)):
                t = b['t']
                eq = d[3].generic.endswith('eq')
                # passing edge: requester == ROOT
                tgt = t[3] if eq else dict(t[2]).get('0', t[3])
                edges.add((i, tgt))
                kinds.append('root-test')
    return edges, kinds


LISTFN = re.compile(r'vault::Vault::(list|list_paginated)$')


def _from_list(f, defs, op):
    """the key comes out of Vault::list (already filtered through has_access per key)"""
    if op[0] == 'k':
        return False
    sl = A.backward_slice(f, [op], defs)
    return any(LISTFN.search(x) for x in sl.calls)


def _sensitive(f, defs):
    out = []
    for c in A.calls(f):
        if SENS_DIRECT.search(c.resolved):
            out.append(c)
        elif STORE_OP.match(c.resolved) and len(c.args) > 1 and c.args[1][0] != 'k':
            sl = A.backward_slice(f, [c.args[1]], defs)
            if any(KEYFN.search(x) for x in sl.calls) and not any(LISTFN.search(x) for x in sl.calls):
                out.append(c)
    return out


def _per_element_guard(f, defs, uses, sens_call, names):
    """delegate(): the guard runs in a loop over a parameter and the sensitive call in a later loop over the
    same parameter; the guard loop's head dominates the sensitive call and its failing edge leaves the function"""
    dom = A.dominators(f)
    for c in A.calls(f):
        if not (GETPERM.search(c.resolved) or CHECKS.search(c.resolved) or HAS.search(c.resolved)):
            continue
        if c.target is None or c.bb not in A.reachable(f, [c.target]):
            continue   # not in a loop
        heads = [h for h in A.calls_to(f, ('re', r'Iterator>::next$')) if h.bb in dom[c.bb] and h.bb in A.reachable(f, [c.target])]
        for h in heads:
            hs = A.backward_slice(f, [h.args[0]], defs)
            for h2 in A.calls_to(f, ('re', r'Iterator>::next$')):
                if h2.bb in dom[sens_call.bb] and h2.bb != h.bb and h.bb in dom[h2.bb]:
                    s2 = A.backward_slice(f, [h2.args[0]], defs)
                    if (hs.params & s2.params) - {1}:
                        o = A.call_outcome(f, c, uses)
                        if o.ok or o.returned:
                            return True
    return False


def r14a(ctx, rep, cr, cg):
    rep.rule('R14a', 'check first, at the right level: in every Vault function with (requester, key) parameters, with the passing edges of '
                     'its authorisation guards cut (Ok of check_access*, true of has_access, Some of get_permission, requester == ROOT) '
                     'no sensitive call is reachable from the entry — cipher encrypt/decrypt, store_blob, store get/put/delete on a '
                     'vault_key/blob_key, graph edge add/delete; private helpers may instead be guarded at every call site; the Permission '
                     'constant passed meets the minimum level of the operation')
    n = 0
    for f in sorted(cr.fns.values(), key=lambda x: x.name):
        if not f.name.startswith(V) or '{closure' in f.name:
            continue
        names = _named(f)
        if not (('requester' in names or 'parent' in names) and ('key' in names or 'pattern' in names or 'secret' in names or 'secrets' in names)):
            continue
        defs = A.Defs(f)
        sens = _sensitive(f, defs)
        if not sens:
            continue
        n += 1
        rep.analysed(f)
        uses = A.Uses(f)
        edges, kinds = _guard_edges(f, defs, uses, names)
        R = A.reachable(f, [0], cut_edges=edges)
        bad = [c for c in sens if c.bb in R]
        bad = [c for c in bad if not _per_element_guard(f, defs, uses, c, names)]
        short = f.name[len(V):]
        if bad and not f.d['vis'].startswith('Public'):
            # private helper: guarded at every call site?
            callers = [x for x in cg.redges.get(f.name, ()) if x in cg.fns]
            ok_all = bool(callers)
            for cn in callers:
                g = cg.fns[cn]
                gd, gu = A.Defs(g), A.Uses(g)
                ge, _ = _guard_edges(g, gd, gu, _named(g))
                Rg = A.reachable(g, [0], cut_edges=ge)
                for s in cg.sites.get((cn, f.name), []):
                    if s.bb in Rg and not any(_from_list(g, gd, a) for a in s.args[1:]):
                        ok_all = False
            if ok_all:
                rep.holds('R14a', f, 'guarded by callers', '%d caller(s)' % len(callers))
                continue
        if bad:
            rep.violation('R14a', f, 'unchecked-' + bad[0].resolved.split('::')[-1], f.loc(bad[0].line),
                          '%s is reachable in Vault::%s on a path that passed no authorisation guard for (requester, key) (guards seen: %s)' % (
                              lib.short(bad[0].resolved), short, sorted(set(kinds)) or 'none'))
        else:
            rep.holds('R14a', f, 'check first', '%d sensitive calls behind %s' % (len(sens), sorted(set(kinds))))
        # level
        if short in MIN_LEVEL:
            lv = []
            for c in A.calls(f):
                if c.resolved.endswith('check_access_with_permission') and len(c.args) > 3:
                    p = _perm_const(f, defs, c.args[3])
                    if p:
                        lv.append(p)
                elif c.resolved.endswith('Vault::check_access'):
                    lv.append('Read')
            if lv and all(LEVEL[p] >= LEVEL[MIN_LEVEL[short]] for p in lv):
                rep.holds('R14a', f, 'level', '%s ≥ %s' % (lv, MIN_LEVEL[short]))
            elif lv:
                rep.violation('R14a', f, 'level-too-low', f.loc(), 'Vault::%s checks %s but the operation needs at least %s' % (short, lv, MIN_LEVEL[short]))
    rep.floor('R14a', 'Vault operations with sensitive calls', n, 6)


def r14d(ctx, rep, cr, cg):
    rep.rule('R14d', 'expiry is enforced where access is checked: grant TTLs are enforced only by cleanup_expired_grants removing the edge, '
                     'so every check_access* / has_access / get_permission call in a Vault operation is preceded on all paths by '
                     'cleanup_expired_grants, or the checker sweeps itself (sibling rule: get, list and batch_get sweep first)')
    # does the checker sweep itself?
    self_sweeping = set()
    for name in (V + 'check_access_with_permission', V + 'has_access', V + 'get_permission', V + 'check_access'):
        g = cr.fns.get(name)
        if g is None:
            continue
        if cg.path(name, lambda x: x == CLEANUP or re.search(r'ttl::\w+::(get_expired|is_expired|remove_expired)$', x) is not None):
            self_sweeping.add(name)
    rep.floor('R14d', 'sibling operations that sweep before checking', len([1 for n2 in ('get', 'list', 'batch_get') if cr.fns.get(V + n2) and A.calls_to(cr.fns[V + n2], CLEANUP)]) + len(self_sweeping), 3)
    n = 0
    for f in sorted(cr.fns.values(), key=lambda x: x.name):
        if not f.name.startswith(V) or '{closure' in f.name or not f.d['vis'].startswith('Public'):
            continue
        checks = [c for c in A.calls(f) if CHECKS.search(c.resolved) or HAS.search(c.resolved) or GETPERM.search(c.resolved)]
        if not checks:
            continue
        n += 1
        rep.analysed(f)
        sweeps = A.calls_to(f, CLEANUP)
        R = A.reachable(f, [0], cut_blocks={c.bb for c in sweeps})
        bad = [c for c in checks if c.bb in R and c.resolved not in self_sweeping and
               not (c.resolved.endswith('::check_access') and (V + 'check_access_with_permission') in self_sweeping)]
        if bad:
            rep.violation('R14d', f, 'no-sweep', f.loc(bad[0].line),
                          'Vault::%s decides access with %s without first removing expired grants: a grant whose TTL has passed keeps '
                          'working here until somebody calls get/list' % (f.name[len(V):], bad[0].resolved.split('::')[-1]))
        else:
            rep.holds('R14d', f, 'sweep before check', '%d check(s)' % len(checks))
    rep.floor('R14d', 'public operations that check access', n, 8)


def r14b(ctx, rep, cr):
    rep.rule('R14b', 'traversal allow-list: in every AccessController traversal, enqueuing a neighbour or updating the result inside the '
                     'edge loop is reachable only through the true edge of is_allowed_edge_type(edge_type)')
    n = 0
    for f in cr.fns.values():
        if not f.name.startswith(AC + 'AccessController::') or '{closure' in f.name:
            continue
        outs = A.calls_to(f, ('re', r'access::get_outgoing_edges\w*$'))
        pushes = A.calls_to(f, ('re', r'VecDeque::<T, A>::push_back$'))
        if not outs or not pushes:
            continue
        n += 1
        rep.analysed(f)
        uses = A.Uses(f)
        allowed = A.calls_to(f, AC + 'is_allowed_edge_type')
        cut = set()
        for c in allowed:
            cut |= A.call_outcome(f, c, uses).ok
        start = [c.target for c in outs if c.target is not None and c.target >= 0]
        R = A.reachable(f, start, cut_edges=cut)
        # restrict to pushes inside the edge loop (reachable from the edge listing)
        Rall = A.reachable(f, start)
        inner = [c for c in pushes if c.bb in Rall]
        bad = [c for c in inner if c.bb in R]
        if not allowed or bad:
            rep.violation('R14b', f, 'unfiltered-traversal', f.loc(bad[0].line if bad else f.line),
                          'a neighbour is enqueued without the edge type having passed the allow-list: membership in an unrelated relation confers access')
        else:
            rep.holds('R14b', f, 'allow-list', '%d enqueue site(s) behind is_allowed_edge_type' % len(inner))
    rep.floor('R14b', 'AccessController traversals', n, 3)


def r14c(ctx, rep, cr):
    rep.rule('R14c', 'nothing readable at rest: in vault.rs no store key argument slices to a `key` parameter except through vault_key / '
                     'blob_key / secret_node_key / the obfuscator; no value written to the store, audit operation, error or log event '
                     'slices to a value / plaintext parameter except through the cipher')
    # create_secret_metadata encrypts the name (its own body is checked by the stored-field clause below)
    KEY_SAN = [('re', r'vault::Vault::(vault_key|blob_key|secret_node_key|create_secret_metadata)$'), ('re', r'obfuscation::\w+::\w+$'), ('re', r'::obfuscate\w*$'),
               ('re', r'encryption::Cipher::encrypt\w*$')]
    VAL_SAN = [('re', r'encryption::Cipher::encrypt\w*$'), ('re', r'::len$'), ('re', r'obfuscation::pad_plaintext$')]
    nk = nv = 0
    for f in sorted(cr.fns.values(), key=lambda x: x.name):
        if not f.file.endswith('tensor_vault/src/vault.rs') or not f.name.startswith(V):
            continue
        names = _named(f)
        defs = None
        kp = {names[x] for x in ('key', 'secret_key') if x in names}
        vp = {names[x] for x in ('value', 'new_value', 'plaintext') if x in names}
        if kp:
            for c in A.calls(f):
                if re.match(r'^tensor_store::TensorStore::(get|put|delete|exists|scan)$', c.resolved) and len(c.args) > 1 and c.args[1][0] != 'k':
                    defs = defs or A.Defs(f)
                    nk += 1
                    sl = A.backward_slice(f, [c.args[1]], defs, cut_calls=KEY_SAN)
                    if sl.params & kp:
                        rep.violation('R14c', f, 'plain-key', f.loc(c.line), 'a store key is built from the secret name without vault_key / blob_key / obfuscation: the name is readable in the store and its snapshots')
                    else:
                        rep.holds('R14c', f, 'store key', 'through the key sanitizers')
        if kp:
            # stored fields must not carry the secret name in clear
            defs = defs or A.Defs(f)
            for c in A.calls(f):
                if re.match(r'^tensor_store::TensorData::(set|insert)$', c.resolved) and len(c.args) > 2 and c.args[2][0] != 'k':
                    nv += 1
                    sl = A.backward_slice(f, [c.args[2]], defs, cut_calls=KEY_SAN + [('re', r'::len$')])
                    if sl.params & kp:
                        fld = c.args[1][1] if c.args[1][0] == 'k' else '?'
                        rep.violation('R14c', f, 'plain-name-in-field', f.loc(c.line),
                                      'the secret name is written into a stored field (%s) without encryption / obfuscation: it is readable in the store and its snapshots' % fld)
                    else:
                        rep.holds('R14c', f, 'stored field (name)', 'name reaches it only encrypted / obfuscated')
        if vp:
            defs = defs or A.Defs(f)
            sinks = []
            for c in A.calls(f):
                if re.match(r'^tensor_store::TensorData::(set|insert)$', c.resolved) and len(c.args) > 2:
                    sinks.append(('stored field', c, [c.args[2]]))
                elif re.search(r'vault::Vault::(log_operation\w*)$', c.resolved):
                    sinks.append(('audit record', c, c.args[1:]))
                elif re.search(r'tracing::|fmt::Arguments|format_args', c.resolved) and not c.exp:
                    sinks.append(('log event', c, c.args))
            for b in f.bbs:
                if b['cleanup']:
                    continue
                for st in b['s']:
                    if st[1][0] == 'agg' and re.search(r'(error::VaultError|audit::AuditOperation)::', st[1][1]):
                        sinks.append((st[1][1].split('::')[-2], None, st[1][2], st[2]))
            for s in sinks:
                nv += 1
                ops = [o for o in s[2] if o[0] != 'k']
                sl = A.backward_slice(f, ops, defs, cut_calls=VAL_SAN)
                line = s[1].line if s[1] is not None else s[3]
                if sl.params & vp:
                    rep.violation('R14c', f, 'plaintext-in-' + s[0].replace(' ', '-'), f.loc(line),
                                  'a %s is built from the secret value without passing the cipher: the plaintext is readable at rest / in records' % s[0])
                else:
                    rep.holds('R14c', f, s[0], 'value reaches it only through the cipher')
    rep.floor('R14c', 'store key sites', nk, 5)
    rep.floor('R14c', 'value sink sites', nv, 2)


def r14e(ctx, rep, cr):
    rep.rule('R14e', 'a grant\'s deadline is forgotten only by expiry or revocation: entries leave GrantTTLTracker.heap only in '
                     'get_expired (each pop behind a must-pass expires_at <= now test), remove (revocation) and clear; no other tracker '
                     'method removes entries — every grant adds its own access edge, and an edge whose deadline was dropped never expires')
    T = 'tensor_vault::ttl::GrantTTLTracker'
    allowed = {T + '::get_expired', T + '::remove', T + '::clear'}
    REM = re.compile(r'BinaryHeap::<T, A>::(pop|retain|clear|drain|drain_sorted|into_vec|into_sorted_vec|append)$|BinaryHeap::<T>::(pop|retain|clear|drain|into_vec|into_sorted_vec)$|PeekMut.*::pop$')
    n = 0
    for name, f in cr.fns.items():
        if not name.startswith(T + '::'):
            continue
        rems = [c for c in A.calls(f) if REM.search(c.generic) or REM.search(c.resolved)]
        if not rems:
            continue
        n += 1
        rep.analysed(f)
        owner = A.parent_fn(name)
        if owner not in allowed:
            rep.violation('R14e', f, 'deadline-dropped', f.loc(rems[0].line),
                          '%s removes entries from the TTL heap (%s): a still-pending deadline of an earlier grant is forgotten, so that grant\'s '
                          'access edge outlives its TTL' % (lib.short(owner), rems[0].generic.split('::')[-1]))
            continue
        if owner == T + '::get_expired':
            defs, cd = A.Defs(f), A.control_deps(f)
            for c in rems:
                ok = False
                for at in lib.must_pass_atoms(cr.fns, f, defs, c.bb):
                    if at.kind == 'cmp' and at.op in ('Le', 'Lt', 'Ge', 'Gt'):
                        sls = at.side_slices()
                    elif at.kind == 'call' and at.pol and re.search(r'PartialOrd.*::(le|lt|ge|gt)$', at.call.resolved + ' ' + at.call.generic):
                        sls = [A.backward_slice(at.fn, [x for x in at.call.args if x[0] != 'k'], at.defs)]
                    else:
                        continue
                    if any(any(x.endswith('GrantTTLEntry.expires_at') for x in sl.fields) for sl in sls):
                        ok = True
                if ok:
                    rep.holds('R14e', f, 'pop only if expired', '')
                else:
                    rep.violation('R14e', f, 'pop-unexpired', f.loc(c.line), 'get_expired pops an entry without a must-pass comparison of its expires_at with now')
        else:
            rep.holds('R14e', f, 'allowed remover', lib.short(owner))
    rep.floor('R14e', 'TTL heap removal sites', n, 2)


def r14f(ctx, rep, cr):
    rep.rule('R14f', 'revocation removes every access edge: in each Vault function that deletes access edges (revoke, '
                     'cleanup_expired_grants, revoke_delegation, revoke_delegation_cascading, …) the edge id handed to delete_graph_edge '
                     'comes out of a loop over the candidate edges (get_entity_outgoing_edges, or the secret\'s incoming edges) — the next() that yields it lies on a cycle with the delete — so '
                     'all edges between the identity and the secret go, not the first one found: grant() never replaces an existing edge, '
                     'an identity granted twice (Read then Write, delegation plus direct grant, standing grant plus TTL elevation) has two')
    n = 0
    for name, f in sorted(cr.fns.items()):
        if not name.startswith(V):
            continue
        dels = A.calls_to(f, V + 'delete_graph_edge')
        if not dels:
            continue
        defs = A.Defs(f)
        for k, c in enumerate(dels):
            if len(c.args) < 2 or c.args[1][0] == 'k':
                continue
            flds, params, callees = lib.provenance_fields(f, defs, c.args[1])
            plocals = set(lib.provenance_fields.last_locals)
            if params and not any(x.endswith('get_entity_outgoing_edges') or x.endswith('find_access_edge') for x in callees) and \
                    not any(re.search(r'Iterator>?::(next|find)$', x) for x in callees):
                continue   # a helper that deletes the edge id it is given
            n += 1
            rep.analysed(f)
            nexts = [x for x in A.calls(f) if (re.search(r'Iterator>?::next$', x.generic) or re.search(r'Iterator>?::next$', x.resolved))]
            src_ok = any(x.endswith('get_entity_outgoing_edges') or x.endswith('get_entity_incoming_edges') for x in callees)
            in_loop = False
            sl = A.backward_slice(f, [c.args[1]], defs)
            for nx in nexts:
                if nx.dest[0] in plocals and c.bb in A.reachable(f, [nx.target]) and nx.bb in A.reachable(f, [c.target]):
                    in_loop = True
            if in_loop:
                rep.holds('R14f', f, 'delete#%d' % k, 'inside a loop over the edges it selects from')
            else:
                rep.violation('R14f', f, 'single-edge-revoke', f.loc(c.line),
                              'the access edge to delete is picked once (%s) instead of inside a loop over all of the identity\'s edges: an '
                              'identity that was granted the secret twice keeps an edge after revoke / expiry and can still read it' % (
                                  ', '.join(sorted(lib.short(x) for x in callees if 'find' in x or 'first' in x or 'next' in x)) or 'no loop'))
    rep.floor('R14f', 'access-edge deletions in revoke paths', n, 3)


def r14g(ctx, rep, cr):
    rep.rule('R14g', 'a listing names only what the requester may read: in every Vault function with a requester parameter that builds a '
                     'list of secret names (list, list_paginated, list_with_metadata, find_similar, …), each push onto a Vec that the '
                     'function returns, of a name it found in the store (scan / decrypt_key_name), is unreachable from the entry once the passing edges of the authorisation guards (has_access, '
                     'check_access*, get_permission, requester == ROOT) are cut. A second, cheaper reachability computation in place of '
                     'the checker is a second definition of access — the two disagree at the traversal horizon')
    n = 0
    for f in sorted(cr.fns.values(), key=lambda x: x.name):
        if not f.name.startswith(V) or '{closure' in f.name:
            continue
        names = _named(f)
        if 'requester' not in names:
            continue
        if not re.search(r'Vec<(std::string::String|alloc::string::String|\(std::string::String)', f.locals[0]):
            continue
        defs = A.Defs(f)
        ret = A.backward_slice(f, [0], defs).locals
        pushes = [c for c in A.calls(f) if re.search(r'Vec::<T, A>::push$', c.generic) and c.args and c.args[0][0] != 'k' and
                  (defs.ref_targets(c.args[0][1][0]) | {c.args[0][1][0]}) & ret]
        if not pushes:
            continue
        uses = A.Uses(f)
        edges, kinds = _guard_edges(f, defs, uses, names)
        R = A.reachable(f, [0], cut_edges=edges)
        rep.analysed(f)
        for k, c in enumerate(pushes):
            # only names the function discovered in the store (scan / decrypt_key_name), not names the caller supplied
            # and not names that already came out of Vault::list
            vs = A.backward_slice(f, [a for a in c.args[1:] if a[0] != 'k'], defs)
            if not any(re.search(r'TensorStore::scan\w*$|Vault::decrypt_key_name$', x) for x in vs.calls) or any(LISTFN.search(x) for x in vs.calls):
                continue
            n += 1
            if c.bb in R:
                rep.violation('R14g', f, 'unguarded-name', f.loc(c.line),
                              'a name is added to the returned list on a path that did not pass has_access / check_access / get_permission '
                              'for the requester (guards seen: %s): whatever decides membership here is not the access checker, and a '
                              'secret that get() denies can be named by list()' % (sorted(set(kinds)) or 'none'))
            else:
                rep.holds('R14g', f, 'push#%d' % k, 'behind %s' % sorted(set(kinds)))
    rep.floor('R14g', 'name pushes in listing functions', n, 1)


def r14h(ctx, rep, cr):
    rep.rule('R14h', 'a cascading revocation revokes every delegation edge below the revoked one: in DelegationManager::revoke_cascading the '
                     'loop over children_of(current) calls revoke(current, child) for every child — no iteration moves on without it. The '
                     'vault deletes access edges only for the records this function returns, so an edge skipped here (a child already '
                     '"visited" through another parent of the same subtree) leaves that descendant with live access to the second '
                     'parent\'s secret')
    f = rep.require_fn('R14h', cr, 'tensor_vault::delegation::DelegationManager::revoke_cascading')
    if f is None:
        return
    rv = [c for c in A.calls_to(f, ('re', r'DelegationManager::revoke$'))]
    inloop = 0
    for k, c in enumerate(rv):
        dom = A.dominators(f)
        if not any((re.search(r'Iterator>?::next$', x.generic) or re.search(r'Iterator>?::next$', x.resolved)) and x.bb in dom[c.bb] for x in A.calls(f)):
            continue
        inloop += 1
        rep.analysed(f)
        h = lib.loop_iterations_skipping(f, c)
        if h is not None:
            rep.violation('R14h', f, 'child-edge-not-revoked', f.loc(c.line),
                          'the loop over a node\'s children can go on to the next child without revoking the delegation to the current one')
        else:
            rep.holds('R14h', f, 'revoke#%d' % k, 'every child edge is revoked')
    rep.floor('R14h', 'revoke calls inside the descendant loop', inloop, 1)


def r14i(ctx, rep, cr):
    rep.rule('R14i', 'a delegated grant exists only for a delegation that was accepted: in Vault::delegate no access edge is added '
                     '(add_entity_graph_edge, directly or in a helper) unless the Ok edge of DelegationManager::register was taken. '
                     'register is where self-delegation, cycles and chains beyond max_delegation_depth are refused; an edge written before '
                     'it survives the refusal as a permanent grant that no delegation record points to, so neither revoke_delegation nor '
                     'a cascading revocation ever removes it')
    f = rep.require_fn('R14i', cr, 'tensor_vault::vault::Vault::delegate')
    if f is None:
        return
    uses = A.Uses(f)
    reg = A.calls_to(f, ('re', r'DelegationManager::register$'))
    if not rep.floor('R14i', 'DelegationManager::register calls in delegate', len(reg), 1):
        return
    rep.analysed(f)
    cut = set()
    for c in reg:
        cut |= set(A.call_outcome(f, c, uses).ok)
    cg = ctx.callgraph(['tensor_vault'])
    edge = re.compile(r'Vault::add_entity_graph_edge$|GraphEngine::create_edge\w*$')
    R = A.reachable(f, [0], cut_edges=cut) if cut else set(range(len(f.bbs)))
    bad = None
    n = 0
    for c in A.calls(f):
        hit = edge.search(c.resolved) or (c.resolved in cg.fns and c.resolved.startswith('tensor_vault::') and
                                          cg.path(c.resolved, lambda x: edge.search(x) is not None) is not None)
        if not hit:
            continue
        n += 1
        if c.bb in R:
            bad = c
    if not cut:
        rep.unresolved_instance('R14i', f, 'register', 'Ok edge of register not recognised')
    elif bad is not None:
        rep.violation('R14i', f, 'edge-before-register', f.loc(bad.line),
                      '%s is reachable before DelegationManager::register has accepted the delegation: when register refuses (depth limit, '
                      'cycle, self-delegation) the child keeps a live grant' % lib.short(bad.resolved))
    else:
        rep.holds('R14i', f, 'edges after register', '%d edge-adding call(s), all behind register\'s Ok edge' % n)
    rep.floor('R14i', 'edge-adding calls in delegate', n, 1)


def r14j(ctx, rep, cr):
    rep.rule('R14j', 'the expiry sweep always looks: GrantTTLTracker::get_expired — the only place where a TTL is enforced, called before every '
                     'access decision — cannot return without having examined the heap (BinaryHeap::peek / pop on GrantTTLTracker.heap). A '
                     'sweep that gives up when the heap mutex is busy (try_lock) reports nothing expired, and the access check that follows '
                     'serves a grant whose deadline has passed')
    f = rep.require_fn('R14j', cr, 'tensor_vault::ttl::GrantTTLTracker::get_expired')
    if f is None:
        return
    rep.analysed(f)
    looks = [c for c in A.calls(f) if re.search(r'BinaryHeap::<T(, A)?>::(peek|pop|peek_mut|is_empty|len|iter|drain\w*|into_\w+)$', c.resolved)]
    if not rep.floor('R14j', 'heap reads in get_expired', len(looks), 1):
        return
    R = A.reachable(f, [0], cut_blocks={c.bb for c in looks})
    tl = [c for c in A.calls(f) if re.search(r'::try_lock\w*$|::try_write\w*$|::try_read\w*$', c.resolved)]
    rets = [r for r in A.return_blocks(f) if r in R]
    if rets:
        rep.violation('R14j', f, 'sweep-can-skip-the-heap', f.loc((tl[0].line if tl else f.line)),
                      'get_expired can return without looking at the heap%s: expired grants are not reported, and the access decision made '
                      'right after it honours them' % (' (a try_lock that fails returns at once)' if tl else ''))
    else:
        rep.holds('R14j', f, 'sweep', 'every return has examined the heap')


def run(ctx, rep):
    cr = ctx.crate('tensor_vault')
    cg = ctx.callgraph(['tensor_vault'])
    r14a(ctx, rep, cr, cg)
    r14d(ctx, rep, cr, cg)
    r14b(ctx, rep, cr)
    r14c(ctx, rep, cr)
    r14e(ctx, rep, cr)
    r14f(ctx, rep, cr)
    r14g(ctx, rep, cr)
    r14h(ctx, rep, cr)
    r14i(ctx, rep, cr)
    r14j(ctx, rep, cr)
