"""C04 Relational filtering — path-shape clauses."""
import re
import analyses as A
import lib

RE = 'relational_engine::RelationalEngine::'
COND = 'relational_engine::Condition'
ASSUMPTIONS = ['that index lookups return a superset of the matching rows is value-level (hash keys, sortable encodings) and not decided here']
EVAL = re.compile(r'relational_engine::Condition::(evaluate|evaluate_with_depth|evaluate_tensor|evaluate_tensor_impl)$')
SLABMUT = re.compile(r'^tensor_store::relational_slab::RelationalSlab::(insert|update_row|delete|insert_batch|batch_insert|delete_batch|update_rows|delete_rows)\w*$')
IDXMAINT = {'hash': re.compile(r'RelationalEngine::(index_add|index_remove|index_add_batch|index_remove_batch)\w*$'),
            'btree': re.compile(r'RelationalEngine::(btree_index_add|btree_index_remove)\w*$')}


def _cond_params(f):
    out = []
    for i in range(1, f.argc + 1):
        t = lib.strip_ref(f.locals[i])
        if t == COND or t.endswith('::Condition'):
            out.append(i)
    return out


def _bodies(cr, name):
    return A.with_closures(cr.fns, name)


def _evaluates(cr, f, seen=None):
    """does this body (or a closure / coroutine nested in it) call Condition::evaluate*?"""
    return any(EVAL.search(c.resolved) for h in _bodies(cr, f.name) for c in A.calls(h))


CONVERT = re.compile(r'RelationalEngine::slab_row_to_engine_row$')
FETCH = re.compile(r'relational_slab::RelationalSlab::(get_rows_by_indices|scan_all|scan|get_rows|scan_range)\w*$')


def r04a(ctx, rep, cr):
    rep.rule('R04a', 'one definition of "satisfies" on every strategy, in every RelationalEngine method that takes a Condition (and its '
                     'closures): (1) every candidate row materialised with slab_row_to_engine_row is handed to Condition::evaluate* before '
                     'the body returns or moves on; (2) after candidate rows are fetched from the slab (index hits or full scan) no success '
                     'return is reachable except through a loop or closure that evaluates the condition; (3) the columnar path takes its '
                     'row set from the vectorised filter fed by the same condition and falls back when that filter declines')
    fns = [f for f in cr.fns.values() if f.name.startswith(RE) and '{closure' not in f.name and _cond_params(f)]
    rep.floor('R04a', 'RelationalEngine methods taking a Condition', len(fns), 8)
    nconv = nfetch = 0
    for f in sorted(fns, key=lambda x: x.name):
        rep.analysed(f)
        for h in _bodies(cr, f.name):
            evals = {c.bb for c in A.calls(h) if EVAL.search(c.resolved)}
            fb = lib.failure_blocks(h)
            for c in A.calls(h):
                if not CONVERT.search(c.resolved):
                    continue
                nconv += 1
                R = A.reachable(h, [c.target], cut_blocks=evals | fb) if c.target is not None else set()
                rets = [r for r in A.return_blocks(h) if r in R]
                again = [x for x in A.calls(h) if CONVERT.search(x.resolved) and x.bb in R and x.bb != c.bb]
                if rets or again:
                    rep.violation('R04a', h, 'row-not-evaluated', h.loc(c.line),
                                  'a candidate row is materialised and the body can return / move to the next row without applying the '
                                  'condition to it: rows the filter rejects are reported')
                else:
                    rep.holds('R04a', h, 'row evaluated', 'conversion → evaluate')
        # (2) after a fetch
        defs = None
        for c in A.calls(f):
            if not FETCH.search(c.resolved):
                continue
            nfetch += 1
            defs = defs or A.Defs(f)
            # columnar path: the indices fetched were selected by the vectorised filter (checked in clause 3)
            if len(c.args) > 2 and c.args[2][0] != 'k' and any(x.endswith('apply_slab_vectorized_filter') for x in A.backward_slice(f, [c.args[2]], defs).calls):
                rep.holds('R04a', f, 'fetch of pre-filtered rows', 'indices come from the vectorised filter')
                continue
            # Condition::True fast path: every row satisfies it
            exempt = False
            cenum = cr.adts.get(COND)
            if cenum is not None:
                for (sb, st) in lib.enum_dispatches(f, COND):
                    tt = lib.variant_targets(cenum, st).get('True')
                    if tt is not None and list(lib.variant_targets(cenum, st).values()).count(tt) == 1:
                        if c.bb not in A.reachable_cp(f, [0], cut_edges={(sb, tt)}):
                            exempt = True
            if exempt:
                rep.holds('R04a', f, 'fetch under Condition::True', 'unfiltered by definition')
                continue
            gates = set()
            for i, b in enumerate(f.bbs):
                if b['cleanup']:
                    continue
                for st in b['s']:
                    rv = st[1]
                    if rv[0] == 'agg' and rv[1].startswith('closure:'):
                        h = cr.fns.get(rv[1].split(':', 1)[1])
                        if h is not None and _evaluates(cr, h):
                            gates.add(i)
                t = b['t']
                if t[0] == 'call':
                    cc = A.Call(i, t)
                    if EVAL.search(cc.resolved):
                        gates.add(i)
                    elif re.search(r'IntoIterator(>)?::into_iter$', cc.generic) and cc.target is not None:
                        body = A.reachable(f, [cc.target])
                        if any(x.bb in body for x in A.calls(f) if EVAL.search(x.resolved)):
                            gates.add(i)
                    elif cc.resolved.startswith(RE) and any(a[0] != 'k' and lib.strip_ref(f.locals[a[1][0]]).endswith('Condition') for a in cc.args[1:]):
                        gates.add(i)
            rets = lib.success_return_reachable(f, [c.target], cut_blocks=gates) if c.target is not None else []
            if rets:
                rep.violation('R04a', f, 'fetched-rows-unfiltered', f.loc(c.line),
                              'rows fetched with %s can reach a success return (bb%s) without passing a loop or closure that evaluates the '
                              'condition: index hits / scanned rows are returned unchecked' % (c.resolved.split('::')[-1], rets[:2]))
            else:
                rep.holds('R04a', f, 'fetch → filter', c.resolved.split('::')[-1])
    rep.notes.append('R04a: %d materialisation sites, %d fetch sites' % (nconv, nfetch))
    rep.floor('R04a', 'candidate-row materialisation sites', nconv, 1)
    rep.floor('R04a', 'candidate fetch sites', nfetch, 1)
    # (3) columnar
    g = rep.require_fn('R04a', cr, RE + 'try_slab_select')
    if g is not None:
        uses, defs = A.Uses(g), A.Defs(g)
        vf = A.calls_to(g, RE + 'apply_slab_vectorized_filter')
        gets = [c for c in A.calls(g) if FETCH.search(c.resolved)]
        if not vf or not gets:
            rep.violation('R04a', g, 'columnar-shape', g.loc(), 'anchor-missing: vectorised filter call (%d) / row fetch (%d)' % (len(vf), len(gets)))
        else:
            o = A.call_outcome(g, vf[0], uses)
            passes = any(a[0] != 'k' and (A.backward_slice(g, [a], defs).params & set(_cond_params(g))) for a in vf[0].args[1:])
            R = A.reachable(g, [0], cut_edges=o.ok)
            if passes and o.ok and not any(c.bb in R for c in gets):
                rep.holds('R04a', g, 'columnar rows from the vectorised filter', 'fed by the condition; None falls back')
            else:
                rep.violation('R04a', g, 'columnar-unfiltered', g.loc(vf[0].line), 'the columnar path fetches rows without a selection produced by the vectorised filter from this condition')


NORM = {'compare_ord': 'ord', 'tensor_compare_ord': 'ord', 'compare_ord_le': 'le', 'tensor_compare_le': 'le',
        'compare_ord_ge': 'ge', 'tensor_compare_ge': 'ge', 'tensor_field_eq': 'eq', 'eq': 'eq', 'ne': 'ne',
        'evaluate': 'rec', 'evaluate_with_depth': 'rec', 'evaluate_tensor': 'rec', 'evaluate_tensor_impl': 'rec'}


def _arm_signature(f, tb, stop):
    """comparator class of one evaluator arm: normalised callee names, Ordering constant, negation, short-circuit polarity"""
    R = A.reachable(f, [tb], cut_blocks=stop)
    Ro = A.reachable(f, list(stop), cut_blocks={tb})
    blocks = sorted(b for b in R if b not in Ro or b == tb)
    names, ords, neg = [], set(), False
    rec_calls = []
    for b in blocks:
        for st in f.bbs[b]['s']:
            rv = st[1]
            if rv[0] == 'un' and rv[1] == 'Not':
                neg = not neg
            for o in A.rvalue_operands(rv):
                if o[0] == 'k':
                    m = re.search(r'\b(Less|Greater|Equal)\b', o[1])
                    if m:
                        ords.add(m.group(1))
            if rv[0] == 'agg' and 'cmp::Ordering::' in rv[1]:
                ords.add(rv[1].split('::')[-1])
        t = f.bbs[b]['t']
        if t[0] == 'call' and not t[8]:
            c = A.Call(b, t)
            last = c.resolved.split('::')[-1]
            if last in NORM:
                names.append(NORM[last])
                if NORM[last] == 'rec':
                    rec_calls.append(c)
            for a in c.args:
                if a[0] == 'k':
                    m = re.search(r'\b(Less|Greater|Equal)\b', a[1])
                    if m:
                        ords.add(m.group(1))
                    m = re.search(r'promoted\[(\d+)\]', a[1])
                    if m and int(m.group(1)) < len(f.d.get('promoted', [])):
                        for rv in f.d['promoted'][int(m.group(1))]:
                            mm = re.search(r'\b(Less|Greater|Equal)\b', str(rv))
                            if mm:
                                ords.add(mm.group(1))
    kinds = set(names)
    if 'ne' in kinds:
        kinds.discard('ne')
        kinds.add('eq')
        neg = not neg
    sc = None
    if len(rec_calls) >= 2:
        # short-circuit polarity: which outcome of the first recursive call leads to the second
        uses = A.Uses(f)
        first = min(rec_calls, key=lambda c: c.line * 10000 + c.bb)
        second = [c for c in rec_calls if c is not first]
        o = A.call_outcome(f, first, uses)
        if f.locals[first.dest[0]].startswith('std::result::Result<bool'):
            # `rec(..)? || rec(..)?`: the short-circuit tests the bool inside Continue(..)
            bl = None
            for u in uses.uses.get(first.dest[0], []):
                if u[0] == 'call' and u[3].generic.endswith('Try::branch'):
                    cf = u[3].dest[0]
                    for u2 in uses.uses.get(cf, []):
                        if u2[0] == 'st' and u2[3][1][0] == 'use' and any(isinstance(p, str) and p == 'as Continue' for p in u2[4][1]) and not u2[3][0][1]:
                            bl = u2[3][0][0]
            if bl is not None:
                o = A.outcome_edges(f, bl, kind='bool', uses=uses)
        # bool results: ok = true edge
        Rt = A.reachable(f, [t2 for (_, t2) in o.ok]) if o.ok else set()
        Rf = A.reachable(f, [t2 for (_, t2) in o.err]) if o.err else set()
        to_t = any(c.bb in Rt for c in second)
        to_f = any(c.bb in Rf for c in second)
        sc = 'and' if to_t and not to_f else ('or' if to_f and not to_t else 'both')
    return (tuple(sorted(kinds)), tuple(sorted(ords)), neg if 'eq' in kinds else False, sc)


def _empty_selection_blocks(g):
    """blocks that build the empty selection (SelectionVector::none): returning it needs no alive mask"""
    return {c.bb for c in A.calls(g) if c.resolved.endswith('SelectionVector::none')}


def r04b(ctx, rep, cr):
    rep.rule('R04b', 'sibling evaluators agree: for every Condition variant the arms of evaluate, evaluate_with_depth and '
                     'evaluate_tensor_impl have the same comparator class (equality with/without negation, ordering helper with the '
                     'same Ordering constant, recursion with the same short-circuit polarity), and each arm of the vectorised '
                     'dispatcher calls the simd filter named after its variant and applies the alive mask before returning a selection')
    enum = cr.adts.get(COND)
    if enum is None:
        rep.violation('R04b', 'anchor-missing', 'Condition', '-', 'anchor-missing: enum Condition not found')
        return
    sigs = {}
    for name in ('evaluate', 'evaluate_with_depth', 'evaluate_tensor_impl'):
        f = rep.require_fn('R04b', cr, COND + '::' + name)
        if f is None:
            continue
        ds = lib.enum_dispatches(f, COND)
        if not ds:
            rep.violation('R04b', f, 'dispatch', f.loc(), 'anchor-missing: no dispatch on Condition')
            continue
        tg = lib.variant_targets(enum, ds[0][1])
        sigs[name] = {}
        for v, tb in tg.items():
            stop = {b for vv, b in tg.items() if b != tb}
            sigs[name][v] = _arm_signature(f, tb, stop)
    if len(sigs) >= 2:
        ref_name = 'evaluate'
        for v in [x['n'] for x in enum['variants']]:
            vals = {n: s.get(v) for n, s in sigs.items()}
            if len(set(vals.values())) == 1:
                rep.holds('R04b', COND + '::evaluate', 'variant ' + v, '%s' % (vals[ref_name],))
            else:
                rep.violation('R04b', COND + '::evaluate', 'variant-' + v, '-',
                              'the evaluators disagree on Condition::%s: %s — the same filter selects different rows depending on the execution strategy' % (
                                  v, '; '.join('%s=%s' % (n, s) for n, s in sorted(vals.items()))))
    # helper bodies: le = "not Greater", ge = "not Less", ord = "== ord"
    for helper, want in (('compare_ord_le', 'Greater'), ('tensor_compare_le', 'Greater'), ('compare_ord_ge', 'Less'), ('tensor_compare_ge', 'Less')):
        hs = [h for h in A.with_closures(cr.fns, COND + '::' + helper)]
        if not hs:
            rep.violation('R04b', 'anchor-missing', helper, '-', 'anchor-missing: %s not found' % helper)
            continue
        got = set()
        ne = False
        for h in hs:
            for c in A.calls(h):
                if re.search(r'PartialEq(<.*>)?>?::ne$', c.generic):
                    ne = True
                for a in c.args:
                    if a[0] == 'k':
                        m = re.search(r'promoted\[(\d+)\]', a[1])
                        if m and int(m.group(1)) < len(h.d.get('promoted', [])):
                            for rv in h.d['promoted'][int(m.group(1))]:
                                mm = re.search(r'\b(Less|Greater|Equal)\b', str(rv))
                                if mm:
                                    got.add(mm.group(1))
            for b in h.bbs:
                for st in b['s']:
                    mm = re.search(r'Ordering::(Less|Greater|Equal)', str(st[1]))
                    if mm:
                        got.add(mm.group(1))
                    m = re.search(r'promoted\[(\d+)\]', str(st[1]))
                    if m and int(m.group(1)) < len(h.d.get('promoted', [])):
                        for rv in h.d['promoted'][int(m.group(1))]:
                            mm = re.search(r'\b(Less|Greater|Equal)\b', str(rv))
                            if mm:
                                got.add(mm.group(1))
        if got == {want} and ne:
            rep.holds('R04b', COND + '::' + helper, 'helper', 'ordering != %s' % want)
        else:
            rep.violation('R04b', COND + '::' + helper, 'helper-' + helper, '-', '%s should be "ordering != %s" but compares %s with %s' % (helper, want, 'ne' if ne else 'eq/other', sorted(got)))
    # vectorised dispatcher
    g = rep.require_fn('R04b', cr, RE + 'apply_slab_vectorized_filter')
    if g is not None:
        ds = lib.enum_dispatches(g, COND)
        if not ds:
            rep.violation('R04b', g, 'dispatch', g.loc(), 'anchor-missing: no dispatch on Condition')
            return
        tg = lib.variant_targets(enum, ds[0][1])
        masks = A.calls_to(g, RE + 'apply_alive_mask')
        n = 0
        for v, tb in sorted(tg.items()):
            stop = {b for vv, b in tg.items() if b != tb}
            R = A.reachable(g, [tb], cut_blocks=stop)
            Ro = A.reachable(g, list(stop), cut_blocks={tb})
            class _K:   # a kernel handed on as a function pointer (`helper(.., simd::filter_eq_i64)`): the arm names it as a constant
                pass
            filt = [c for c in A.calls(g) if c.bb in R and c.bb not in Ro and re.search(r'simd::filter_\w+$', c.resolved)]
            for b_ in sorted(R - Ro):
                for st in g.bbs[b_]['s']:
                    for o in A.rvalue_operands(st[1]):
                        if o[0] == 'k' and re.search(r'simd::filter_\w+', o[1]):
                            k_ = _K()
                            k_.resolved = re.search(r'[\w:]*simd::filter_\w+', o[1]).group(0)
                            k_.line, k_.target, k_.bb = st[2], b_, b_
                            filt.append(k_)
            for c in filt:
                n += 1
                op = re.search(r'filter_([a-z]+)_', c.resolved.split('::')[-1])
                if not op or op.group(1) != v.lower():
                    rep.violation('R04b', g, 'simd-' + v, g.loc(c.line), 'the vectorised arm for Condition::%s calls %s' % (v, c.resolved.split('::')[-1]))
                    continue
                # alive mask must be applied on every path from the filter to a Some return that carries a non-empty selection
                rets = lib.success_return_reachable(g, [c.target], cut_blocks={m.bb for m in masks} | _empty_selection_blocks(g))
                if rets:
                    rep.violation('R04b', g, 'alive-mask-' + v, g.loc(c.line), 'the vectorised arm for Condition::%s can return a selection without applying the alive mask: deleted rows are selected' % v)
                else:
                    rep.holds('R04b', g, 'vectorised %s' % c.resolved.split('::')[-1], 'named after its variant, alive mask applied')
        rep.floor('R04b', 'vectorised filter calls', n, 4)


def r04c(ctx, rep, cr):
    rep.rule('R04c', 'index maintenance pairing: every RelationalEngine function that calls a RelationalSlab row mutator also maintains both '
                     'index kinds (hash and ordered) in the same function, or is in the reviewed exception table')
    EXC = {'drop_table': 'drops the table and its indexes wholesale', 'rebuild': 'rebuilds from the slab',
           'apply_undo_entry': 'checked by C09 R09d', 'create_table': 'no rows yet'}
    n = 0
    for f in cr.fns.values():
        if not f.name.startswith(RE) or '{closure' in f.name:
            continue
        bodies = _bodies(cr, f.name)
        muts = [c for h in bodies for c in A.calls(h) if SLABMUT.match(c.resolved)]
        if not muts:
            continue
        short = f.name[len(RE):]
        if any(short.startswith(k) for k in EXC):
            continue
        n += 1
        rep.analysed(f)
        kinds = {k for k, rx in IDXMAINT.items() for h in bodies for c in A.calls(h) if rx.search(c.resolved)}
        miss = sorted(set(IDXMAINT) - kinds)
        if miss:
            rep.violation('R04c', f, 'no-%s-index-maintenance' % '+'.join(miss), f.loc(muts[0].line),
                          '%s changes rows through %s but never maintains the %s index: creating that index changes query results' % (short, muts[0].resolved.split('::')[-1], ' / '.join(miss)))
        else:
            rep.holds('R04c', f, 'both index kinds maintained', '%d row mutation(s)' % len(muts))
    rep.floor('R04c', 'row-mutating engine functions', n, 4)


F_IEEE = re.compile(r'PartialOrd for f(64|32)>::(partial_cmp|lt|le|gt|ge)$')
F_TOTAL = re.compile(r'<impl f(64|32)>::total_cmp$')


def _float_order_family(f):
    fam = set()
    for c in A.calls(f):
        if F_IEEE.search(c.resolved):
            fam.add('ieee (partial_cmp: -0.0 == 0.0)')
        elif F_TOTAL.search(c.resolved):
            fam.add('total_cmp (-0.0 < 0.0)')
    for b in f.bbs:
        if b['cleanup']:
            continue
        for st in b['s']:
            rv = st[1]
            if rv[0] == 'bin' and rv[1] in ('Lt', 'Le', 'Gt', 'Ge'):
                for op in (rv[2], rv[3]):
                    if op[0] != 'k' and not op[1][1] and f.locals[op[1][0]] in ('f64', 'f32'):
                        fam.add('ieee (partial_cmp: -0.0 == 0.0)')
    return fam


def r04d(ctx, rep, cr):
    rep.rule('R04d', 'one float order: every hand-written Ord::cmp / PartialOrd::partial_cmp of a relational_engine type (the keys of the '
                     'ordered index) compares floats with the same primitive family as Value::partial_cmp_value, which Condition::evaluate '
                     'uses on rows — an index ordered by total_cmp and a predicate ordered by partial_cmp disagree on -0.0 vs 0.0, so an '
                     'index range lookup drops rows a scan returns')
    pred = rep.require_fn('R04d', cr, 'relational_engine::Value::partial_cmp_value')
    if pred is None:
        return
    pf = _float_order_family(pred)
    if not rep.floor('R04d', 'float comparison primitives in Value::partial_cmp_value', len(pf), 1):
        return
    n = 0
    for name, f in sorted(cr.fns.items()):
        if not re.match(r'<relational_engine::[\w:]+ as core::cmp::(Ord>::cmp|PartialOrd>::partial_cmp)$', name):
            continue
        fam = _float_order_family(f)
        if not fam:
            continue
        n += 1
        rep.analysed(f)
        if fam <= pf:
            rep.holds('R04d', f, 'float order', 'same family as the predicate: %s' % sorted(fam))
        else:
            rep.violation('R04d', f, 'float-order-differs', f.loc(),
                          '%s orders floats by %s while Value::partial_cmp_value (the row predicate) uses %s: a B-tree range lookup with a '
                          'bound of 0.0 skips rows holding -0.0 (and vice versa) that a full scan returns' % (
                              lib.short(name), sorted(fam - pf), sorted(pf)))
    rep.floor('R04d', 'index key comparators that order floats', n, 1)


def r04e(ctx, rep, cr):
    rep.rule('R04e', 'candidate sets are combined without assuming an order: a function of relational_engine that compares an element '
                     'of one integer list with an element of another for order (the two-cursor merge / intersection shape) sorts both '
                     'lists itself first. Hash-index posting lists are in insertion order — an UPDATE re-appends an old row id behind newer '
                     'ones — so a merge over them skips ids and the index path returns fewer rows than a scan')
    n = 0
    nf = 0
    for name, f in sorted(cr.fns.items()):
        nf += 1
        for k, (line, a_, b_, sa, sb) in enumerate(lib.merge_compare_sites(f)):
            n += 1
            rep.analysed(f)
            if sa and sb:
                rep.holds('R04e', f, 'merge#%d' % k, 'both inputs sorted in the function')
            else:
                rep.violation('R04e', f, 'merge-on-unsorted', f.loc(line),
                              'elements of two id lists are compared for order (a sorted-merge) but the lists are not sorted in this '
                              'function: on posting lists in insertion order (e.g. [2, 3, 1] after an update) the merge skips matching ids, '
                              'so select / count through the index drop rows a scan returns')
    rep.notes.append('R04e: %d functions scanned, %d merge-shaped comparison(s)' % (nf, n))
    rep.floor('R04e', 'relational_engine functions scanned for merge-shaped comparisons', nf, 300)
    if n == 0:
        rep.holds('R04e', 'relational_engine', 'merge-shaped comparisons', 'none in the crate')


def _is_const_value(f, defs, op, depth=4):
    """is the operand (a reference to) a Value built from a constant in this function, e.g. `&Value::Null`?"""
    if op[0] == 'k':
        return True
    l = op[1][0]
    for _ in range(depth):
        d = A.single_def(defs, l)
        if not d or d[2] != 'st':
            return False
        rv = d[3][1]
        if rv[0] == 'agg':
            return rv[1].startswith('relational_engine::Value::') and all(o[0] == 'k' for o in rv[2])
        if rv[0] == 'ref':
            l = rv[1][0]
        elif rv[0] == 'use':
            if rv[1][0] == 'k':
                return True
            l = rv[1][1][0]
        else:
            return False
    return False


def r04f(ctx, rep, cr):
    rep.rule('R04f', 'index maintenance is decided by index keys, not by value equality: no call to index_add / index_remove / '
                     'btree_index_add / btree_index_remove in a RelationalEngine function is control dependent on the outcome of '
                     '`Value == Value` (PartialEq::eq / ne on relational_engine::Value). The hash index files a value under hash_key() — '
                     'floats by bit pattern — while Value\'s PartialEq says -0.0 == 0.0: an update that "does not change" the value by == '
                     'can still move it to another bucket, and a skipped re-index leaves the row under the old key, invisible to an '
                     'indexed Eq lookup that a scan answers')
    IDXC = re.compile(r'RelationalEngine::(index_add|index_remove|btree_index_add|btree_index_remove)$')
    n = 0
    for name, f in sorted(cr.fns.items()):
        if not name.startswith(RE) or '{closure' in name:
            continue
        ics = [c for c in A.calls(f) if IDXC.search(c.resolved)]
        if not ics:
            continue
        defs = A.Defs(f)
        cd = A.control_deps(f)
        dom = A.dominators(f)
        n += 1
        rep.analysed(f)
        bad = None
        valroots = None
        for c in ics:
            seen, work = set(), [c.bb]
            while work and bad is None:
                b_ = work.pop()
                for (a_, s_) in cd.get(b_, ()):
                    if a_ in seen:
                        continue
                    seen.add(a_)
                    work.append(a_)
                    l = lib.switch_local(f, a_)
                    d = A.single_def(defs, l) if l is not None else None
                    if d and d[2] == 'call' and re.search(r'PartialEq(<.*>)?>?::(eq|ne)$', d[3].generic + ' ' + d[3].resolved):
                        tys = [f.locals[a[1][0]] for a in d[3].args if a[0] != 'k']
                        if len(tys) == 2 and any(re.search(r'relational_engine::Value$', t.replace('&', '').strip()) for t in tys):
                            # both sides are row / update values (what the index calls are handed), not a constant such as Value::Null
                            if valroots is None:
                                valroots = set()
                                for x in ics:
                                    if len(x.args) > 3 and x.args[3][0] != 'k':
                                        valroots |= A.backward_slice(f, [x.args[3]], defs).locals
                            sides = [A.backward_slice(f, [a], defs) for a in d[3].args]
                            if all((sl_.locals & valroots) and not any('Value::Null' in str(k) for k in sl_.consts) and
                                   not _is_const_value(f, defs, a) for sl_, a in zip(sides, d[3].args)):
                                bad = (c, d[3])
        if bad:
            c, e = bad
            rep.violation('R04f', f, 'reindex-decided-by-value-eq', f.loc(e.line),
                          '%s is skipped or taken depending on `Value == Value` (line %d): values that are == can have different index keys '
                          '(-0.0 / 0.0), and the row stays filed under the old one' % (lib.short(c.resolved), e.line))
        else:
            rep.holds('R04f', f, 'index calls', '%d index maintenance call(s), none behind a Value equality test' % len(ics))
    rep.floor('R04f', 'functions with index maintenance calls', n, 3)


def run(ctx, rep):
    cr = ctx.crate('relational_engine')
    r04a(ctx, rep, cr)
    r04b(ctx, rep, cr)
    r04c(ctx, rep, cr)
    r04d(ctx, rep, cr)
    r04e(ctx, rep, cr)
    r04f(ctx, rep, cr)
    import c09
    c09.r09f(ctx, rep, cr)   # index maintenance order: an index must keep answering what a scan answers
