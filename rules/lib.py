"""Helpers shared by the per-property rule modules."""
import re
import analyses as A


def failure_blocks(fn):
    """Blocks that set the return place to a failure value: Err{..}, `false`
    (bool fns), None (Option fns), or `from_residual` (the `?` error arm)."""
    out = set()
    rty = fn.locals[0]
    for i, b in enumerate(fn.bbs):
        if b['cleanup']:
            continue
        for st in b['s']:
            if st[0][0] == 0 and not st[0][1]:
                rv = st[1]
                if rv[0] == 'agg' and rv[1].endswith('Result::Err'):
                    out.add(i)
                elif rv[0] == 'agg' and rv[1].endswith('Option::None') and rty.startswith('std::option::Option<'):
                    out.add(i)
                elif rv[0] == 'use' and rv[1] == ['k', 'false'] and rty == 'bool':
                    out.add(i)
        t = b['t']
        if t[0] == 'call' and t[4][0] == 0 and not t[4][1] and t[1].endswith('from_residual'):
            out.add(i)
    return out


def success_return_reachable(fn, start_blocks, cut_edges=(), cut_blocks=(), cp=False):
    """Can a (non-failure) return be reached from start_blocks with the cuts applied?
    Returns the list of reachable return blocks. cp=True: constant-propagating
    reachability (A5) so that flag idioms do not create infeasible paths."""
    fb = failure_blocks(fn)
    if cp:
        R = A.reachable_cp(fn, start_blocks, cut_blocks=set(cut_blocks) | fb, cut_edges=cut_edges)
    else:
        R = A.reachable(fn, start_blocks, cut_blocks=set(cut_blocks) | fb, cut_edges=cut_edges)
    return [r for r in A.return_blocks(fn) if r in R]


def first_line(fn, bb):
    b = fn.bbs[bb]
    if b['s']:
        return b['s'][0][2]
    t = b['t']
    for x in reversed(t):
        if isinstance(x, int) and x > 0:
            return x
    return fn.line


def value_sig(fn, defs, op):
    """Source signature of a value: fields read, constants, aggregate kinds on its slice."""
    if op[0] == 'k':
        return {op[1]}
    sl = A.backward_slice(fn, [op], defs)
    s = set(sl.fields) | set(sl.consts)
    for l in sl.locals:
        for d in defs.defs.get(l, []):
            if d[2] == 'st' and d[3][1][0] == 'agg':
                s.add('agg:' + d[3][1][1])
    return s


def cmp_sig(fn, defs, local):
    """If `local` is defined by a comparison, return (op, sig(lhs), sig(rhs))."""
    d = A.single_def(defs, local)
    if not d or d[2] != 'st':
        return None
    rv = d[3][1]
    if rv[0] == 'use' and rv[1][0] in ('c', 'm') and not rv[1][1][1]:
        return cmp_sig(fn, defs, rv[1][1][0])
    if rv[0] != 'bin' or rv[1] not in ('Gt', 'Lt', 'Ge', 'Le', 'Eq', 'Ne'):
        return None
    return (rv[1], frozenset(x for x in value_sig(fn, defs, rv[2]) if '.' in x and '::' in x),
            frozenset(x for x in value_sig(fn, defs, rv[3]) if '.' in x and '::' in x))


def switch_local(fn, bb):
    t = fn.bbs[bb]['t']
    if t[0] == 'sw' and t[1][0] in ('c', 'm') and not t[1][1][1]:
        return t[1][1][0]
    return None


def fn_reach_calls(cg, start, pat, cut=()):
    """Does `start` reach (transitively) a call to a function matching pat? returns path or None."""
    return cg.path(start, lambda n: A.name_matches(n, pat), cut=cut)


def short(name):
    return re.sub(r'^[a-z_]+::', '', name)


def fns_in_file(crate, suffix):
    return [f for f in crate.fns.values() if f.file.endswith(suffix)]


def strip_ref(ty):
    ty = ty.strip()
    while ty.startswith('&'):
        ty = ty[1:].lstrip()
        ty = re.sub(r"^'\w+\s+", '', ty)
        if ty.startswith('mut '):
            ty = ty[4:]
    return ty


def same_type(ty, path):
    """type strings print foreign items by their visible (re-exported) path, definitions by
    their def path: equal when crate and final segment agree"""
    ty = re.sub(r'<.*$', '', ty)
    if ty == path:
        return True
    a, b = ty.split('::'), path.split('::')
    return a[0] == b[0] and a[-1] == b[-1]


def enum_dispatches(fn, enum_path):
    """Switches on the discriminant of a value whose type is exactly `enum_path`
    (possibly behind references). Returns [(bb, term)]."""
    out = []
    for i, b in enumerate(fn.bbs):
        if b['cleanup'] or b['t'][0] != 'sw':
            continue
        t = b['t']
        if t[1][0] not in ('c', 'm') or t[1][1][1]:
            continue
        for st in b['s']:
            if st[1][0] == 'disc' and st[0][0] == t[1][1][0] and not st[0][1]:
                pl = st[1][1]
                if all(x == '*' for x in pl[1]) and same_type(strip_ref(fn.locals[pl[0]]), enum_path):
                    out.append((i, t))
    return out


def variant_targets(adt, sw_term):
    """variant name -> target block of a discriminant switch."""
    listed = dict(sw_term[2])
    return {v['n']: listed.get(v['d'], sw_term[3]) for v in adt['variants']}
