"""Helpers shared by the per-property rule modules."""
import re
import analyses as A


def failure_blocks(fn):
    """Blocks that set the return place to a failure value: Err{..}, `false`
    (bool fns), None (Option fns), or `from_residual` (the `?` error arm)."""
    out = set()
    rty = fn.locals[0]
    # locals whose whole value is moved into the return place (a tail call's result, an inlined helper's return slot)
    ra = {0}
    changed = True
    while changed:
        changed = False
        for b in fn.bbs:
            if b['cleanup']:
                continue
            for st in b['s']:
                if st[0][0] in ra and not st[0][1] and st[1][0] == 'use' and st[1][1][0] != 'k' and not st[1][1][1][1]:
                    src = st[1][1][1][0]
                    if src not in ra and fn.locals[src] == fn.locals[st[0][0]]:
                        ra.add(src)
                        changed = True
    for i, b in enumerate(fn.bbs):
        if b['cleanup']:
            continue
        for st in b['s']:
            if st[0][0] in ra and not st[0][1]:
                rv = st[1]
                if rv[0] == 'agg' and rv[1].endswith('Result::Err'):
                    out.add(i)
                elif rv[0] == 'agg' and rv[1].endswith('Option::None') and rty.startswith('std::option::Option<'):
                    out.add(i)
                elif rv[0] == 'use' and rv[1] == ['k', 'false'] and rty == 'bool':
                    out.add(i)
        t = b['t']
        if t[0] == 'call' and t[4][0] in ra and not t[4][1] and t[1].endswith('from_residual'):
            out.add(i)
    return out


def success_return_reachable(fn, start_blocks, cut_edges=(), cut_blocks=(), cp=False):
    """Can a (non-failure) return be reached from start_blocks with the cuts applied?
    Returns the list of reachable return blocks. cp=True: constant-propagating
    reachability (A5) so that flag idioms do not create infeasible paths."""
    fb = failure_blocks(fn)
    if cp:
        R = A.reachable_cp(fn, start_blocks, cut_blocks=set(cut_blocks) | fb, cut_edges=cut_edges)
    else:
        R = A.reachable(fn, start_blocks, cut_blocks=set(cut_blocks) | fb, cut_edges=cut_edges)
    return [r for r in A.return_blocks(fn) if r in R]


def success_returns_by_value(fn, start_blocks, cut_edges=(), cut_blocks=()):
    """Second opinion for success_return_reachable: follows values along each path and keeps only the returns whose result is
    not known to be a failure on that path (false for a bool function, Err / None for Result / Option).  `x.sync().is_ok()` as
    the tail expression returns through one block for both outcomes; only the value tells them apart."""
    rs = []
    A.reachable_cp(fn, start_blocks, cut_edges=cut_edges, cut_blocks=set(cut_blocks) | failure_blocks(fn), ret_states=rs, max_states=400000)
    if 'overflow' in rs:
        return success_return_reachable(fn, start_blocks, cut_edges, cut_blocks)
    ret_ty = fn.locals[0]
    out = []
    for bb, v in rs:
        if ret_ty == 'bool' and v == 0:
            continue
        if v in ('Err', 'None'):
            continue
        out.append(bb)
    return sorted(set(out))


def loop_iterations_skipping(fn, call, also=()):
    """For a call inside a `for` loop: can the innermost loop around it start its next iteration without having made the call (or
    one of `also`)?  Returns the loop-head call, or None if the call is not in a loop / every iteration passes it."""
    dom = A.dominators(fn)
    after = A.reachable(fn, [call.target] if call.target is not None and call.target >= 0 else [])
    heads = [x for x in A.calls(fn) if (re.search(r'Iterator>?::next$', x.generic) or re.search(r'Iterator>?::next$', x.resolved))
             and x.bb in dom[call.bb] and x.bb in after]
    if not heads:
        return None
    h = max(heads, key=lambda x: len(dom[x.bb]))
    # only the body: start on the Some edge of next() (the None edge leaves the loop; an enclosing loop may come back to this
    # head later, which is a new run of the loop and not a skipped iteration)
    some = [t for (_, t) in A.call_outcome(fn, h, A.Uses(fn)).ok]
    start = some or ([h.target] if h.target is not None and h.target >= 0 else A.succs(fn, h.bb))
    R = A.reachable(fn, start, cut_blocks={call.bb, h.bb} | set(also))
    return h if any(h.bb in A.succs(fn, b_) for b_ in R) else None


def first_line(fn, bb):
    b = fn.bbs[bb]
    if b['s']:
        return b['s'][0][2]
    t = b['t']
    for x in reversed(t):
        if isinstance(x, int) and x > 0:
            return x
    return fn.line


def value_sig(fn, defs, op):
    """Source signature of a value: fields read, constants, aggregate kinds on its slice."""
    if op[0] == 'k':
        return {op[1]}
    sl = A.backward_slice(fn, [op], defs)
    s = set(sl.fields) | set(sl.consts)
    for l in sl.locals:
        for d in defs.defs.get(l, []):
            if d[2] == 'st' and d[3][1][0] == 'agg':
                s.add('agg:' + d[3][1][1])
    return s


def cmp_sig(fn, defs, local):
    """If `local` is defined by a comparison, return (op, sig(lhs), sig(rhs))."""
    d = A.single_def(defs, local)
    if not d or d[2] != 'st':
        return None
    rv = d[3][1]
    if rv[0] == 'use' and rv[1][0] in ('c', 'm') and not rv[1][1][1]:
        return cmp_sig(fn, defs, rv[1][1][0])
    if rv[0] != 'bin' or rv[1] not in ('Gt', 'Lt', 'Ge', 'Le', 'Eq', 'Ne'):
        return None
    return (rv[1], frozenset(x for x in value_sig(fn, defs, rv[2]) if '.' in x and '::' in x),
            frozenset(x for x in value_sig(fn, defs, rv[3]) if '.' in x and '::' in x))


def switch_local(fn, bb):
    t = fn.bbs[bb]['t']
    if t[0] == 'sw' and t[1][0] in ('c', 'm') and not t[1][1][1]:
        return t[1][1][0]
    return None


def fn_reach_calls(cg, start, pat, cut=()):
    """Does `start` reach (transitively) a call to a function matching pat? returns path or None."""
    return cg.path(start, lambda n: A.name_matches(n, pat), cut=cut)


def short(name):
    return re.sub(r'^[a-z_]+::', '', name)


def fns_in_file(crate, suffix):
    return [f for f in crate.fns.values() if f.file.endswith(suffix)]


def strip_ref(ty):
    ty = ty.strip()
    while ty.startswith('&'):
        ty = ty[1:].lstrip()
        ty = re.sub(r"^'\w+\s+", '', ty)
        if ty.startswith('mut '):
            ty = ty[4:]
    return ty


def same_type(ty, path):
    """type strings print foreign items by their visible (re-exported) path, definitions by
    their def path: equal when crate and final segment agree"""
    ty = re.sub(r'<.*$', '', ty)
    if ty == path:
        return True
    a, b = ty.split('::'), path.split('::')
    return a[0] == b[0] and a[-1] == b[-1]


def enum_dispatches(fn, enum_path):
    """Switches on the discriminant of a value whose type is exactly `enum_path`
    (possibly behind references). Returns [(bb, term)]."""
    out = []
    for i, b in enumerate(fn.bbs):
        if b['cleanup'] or b['t'][0] != 'sw':
            continue
        t = b['t']
        if t[1][0] not in ('c', 'm') or t[1][1][1]:
            continue
        for st in b['s']:
            if st[1][0] == 'disc' and st[0][0] == t[1][1][0] and not st[0][1]:
                pl = st[1][1]
                if all(x == '*' for x in pl[1]) and same_type(strip_ref(fn.locals[pl[0]]), enum_path):
                    out.append((i, t))
    return out


def variant_targets(adt, sw_term):
    """variant name -> target block of a discriminant switch."""
    listed = dict(sw_term[2])
    return {v['n']: listed.get(v['d'], sw_term[3]) for v in adt['variants']}


def table_calls(f, defs, table_field, meth_re):
    """calls HashMap::<meth> whose receiver is the field `table_field` (directly or through a guard deref)"""
    out = []
    for c in A.calls(f):
        if not re.search(r'HashMap::<K, V, S, A>::(%s)$' % meth_re, c.generic) or not c.args or c.args[0][0] == 'k':
            continue
        fs = A.place_fields(c.args[0][1])
        if not fs:
            fs, _ = A.origin_fields(f, c.args[0][1][0], defs)
        if any(x.endswith(table_field) for x in fs):
            out.append(c)
    return out


def holder_only_release(rep, rule, fns, table_field, owner_field, what):
    """Every removal from a lock table is (a) behind the true edge of `<owner_field> == <a parameter>` or (b) removes a key that
    was selected from the table itself in the same function (iter/filter over the table: the entry that matched is the entry
    removed). Keys that come from a secondary per-transaction list can be stale — an expired lock may have been taken over —
    so they need (a). Returns the number of removal sites."""
    n = 0
    for name, f in sorted(fns.items()):
        defs = A.Defs(f)
        rm = table_calls(f, defs, table_field, 'remove|retain|clear|drain|remove_entry')
        if not rm:
            continue
        rep.analysed(f)
        iters = table_calls(f, defs, table_field, 'iter|iter_mut|keys|values')
        for k, c in enumerate(rm):
            n += 1
            how = None
            for at in must_pass_atoms(fns, f, defs, c.bb):
                if at.kind != 'cmp' or at.op != 'Eq':
                    continue
                sides = at.side_slices()
                has_owner = any(any(x.endswith(owner_field) for x in sl.fields) for sl in sides)
                has_param = any(sl.params for sl in sides)
                if has_owner and has_param:
                    how = 'behind %s == <parameter>' % owner_field.split('::')[-1]
            if how is None and c.generic.endswith('::remove') and len(c.args) > 1 and c.args[1][0] != 'k':
                sl = A.backward_slice(f, [c.args[1]], defs)
                if any(ic.dest[0] in sl.locals for ic in iters):
                    how = 'key selected from the table itself in this critical section'
            if how:
                rep.holds(rule, f, 'remove#%d' % k, how)
            else:
                rep.violation(rule, f, 'unowned-release', f.loc(c.line),
                              'a %s is removed from the table without checking that the releasing transaction still holds it: after '
                              'an expired lock was taken over (the acquire overwrites it but the key stays in the old holder\'s list), the old '
                              'holder\'s late release deletes the new holder\'s live lock and a third transaction is granted the key' % what)
    return n


def forward_taint(f, seeds):
    """locals whose value is derived (flow-insensitively) from the seed locals: assignments mentioning a tainted local,
    and results of calls that take one as an argument"""
    t = set(seeds)
    changed = True
    while changed:
        changed = False
        for b in f.bbs:
            if b['cleanup']:
                continue
            for st in b['s']:
                d = st[0][0]
                if d in t:
                    continue
                rv = st[1]
                ls = set()
                for op in A.rvalue_operands(rv):
                    if op[0] != 'k':
                        ls.add(op[1][0])
                for pl in A.rvalue_places(rv):
                    ls.add(pl[0])
                if ls & t:
                    t.add(d)
                    changed = True
            tm = b['t']
            if tm[0] == 'call':
                d = tm[4][0]
                if d not in t and any(a[0] != 'k' and a[1][0] in t for a in tm[3]):
                    t.add(d)
                    changed = True
    return t


def provenance_fields(f, defs, op, max_nodes=400):
    """Fields read on the *data* path of a value: follows copies/moves/refs/casts/aggregates and, through calls, only the
    first argument (receiver / the collection being transformed) — not sizes, ranges or other parameters.
    Returns (fields, params, callees)."""
    fields, params, callees = set(), set(), set()
    work = []

    def add_place(pl):
        for x in A.place_fields(pl):
            fields.add(x)
        work.append(pl[0])

    if op[0] != 'k':
        add_place(op[1])
    seen = set()
    while work and len(seen) < max_nodes:
        l = work.pop()
        if l in seen:
            continue
        seen.add(l)
        if 1 <= l <= f.argc:
            params.add(l)
        for (_, _, k, p) in defs.defs.get(l, []):
            if k == 'st':
                rv = p[1]
                if rv[0] in ('ref', 'disc'):
                    add_place(rv[1])
                for o in A.rvalue_operands(rv):
                    if o[0] != 'k':
                        add_place(o[1])
            elif k == 'call':
                callees.add(p.resolved)
                if p.args and p.args[0][0] != 'k':
                    add_place(p.args[0][1])
    provenance_fields.last_locals = set(seen)
    return fields, params, callees


def val_sig(f, defs, op, depth=0):
    """structural identity of an integer value: constants, len() / slice metadata of a named buffer, sums, casts;
    otherwise the (root) local. Equal signatures = same value as long as nothing in between reassigns the named locals."""
    if op[0] == 'k':
        v = A._const_val(op[1])
        return ('k', v if v is not None else op[1])
    l, proj = op[1][0], op[1][1]
    if depth > 12:
        return ('l', l)
    d = A.single_def(defs, l)
    if proj:
        if d and d[2] == 'st' and d[3][1][0] == 'bin' and d[3][1][1].endswith('WithOverflow') and str(proj[0]).lstrip('.#') == '0':
            rv = d[3][1]
            return (rv[1].replace('WithOverflow', ''),) + tuple(sorted([val_sig(f, defs, rv[2], depth + 1), val_sig(f, defs, rv[3], depth + 1)], key=repr))
        return ('p', l, tuple(map(str, proj)))
    if not d:
        return ('l', l)
    if d[2] == 'st':
        rv = d[3][1]
        if rv[0] == 'use':
            return val_sig(f, defs, rv[1], depth + 1)
        if rv[0] == 'bin' and rv[1] in ('Add', 'Sub', 'Mul'):
            a, b = val_sig(f, defs, rv[2], depth + 1), val_sig(f, defs, rv[3], depth + 1)
            return (rv[1],) + (tuple(sorted([a, b], key=repr)) if rv[1] != 'Sub' else (a, b))
        if rv[0] == 'cast':
            return val_sig(f, defs, rv[1], depth + 1)
        if rv[0] == 'un' and rv[1] == 'PtrMetadata':
            return ('len',) + _buffer_root(f, defs, rv[2])
        if rv[0] == 'len':
            return ('len', rv[1][0], tuple(map(str, rv[1][1])))
        return ('l', l)
    if d[2] == 'call':
        c = d[3]
        if re.search(r'::len$', c.resolved) and c.args and c.args[0][0] != 'k':
            return ('len',) + _buffer_root(f, defs, c.args[0])
    return ('l', l)


def _buffer_root(f, defs, op, depth=0):
    """the named buffer a reference / slice value points at: follows copies, reborrows and deref-to-slice calls"""
    if op[0] == 'k':
        return (op[1], ())
    l, proj = op[1][0], [p for p in op[1][1] if str(p) != '*']
    if proj or depth > 8:
        return (l, tuple(map(str, proj)))
    d = A.single_def(defs, l)
    if d and d[2] == 'st':
        rv = d[3][1]
        if rv[0] == 'ref':
            pl = rv[1]
            inner = [p for p in pl[1] if str(p) != '*']
            if not inner:
                return _buffer_root(f, defs, ['c', [pl[0], []]], depth + 1)
            return (pl[0], tuple(map(str, inner)))
        if rv[0] in ('use', 'cast'):
            return _buffer_root(f, defs, rv[1], depth + 1)
    if d and d[2] == 'call' and re.search(r'Deref(Mut)?>::deref(_mut)?$|::as_bytes$|::as_slice$|::as_str$|::as_ref$', d[3].resolved) and d[3].args:
        return _buffer_root(f, defs, d[3].args[0], depth + 1)
    return (l, ())


def _assigned_between(f, start, stop_bb, root):
    """is local `root` assigned on a path from block `start` to block `stop_bb`?"""
    F = A.reachable(f, [start], cut_blocks={stop_bb}) | {stop_bb}
    preds = A.preds_map(f)
    B = {stop_bb}
    work = [stop_bb]
    while work:
        x = work.pop()
        for p_ in preds.get(x, ()):
            if p_ not in B:
                B.add(p_)
                work.append(p_)
    for bb in F & B:
        if bb == stop_bb:
            continue
        b = f.bbs[bb]
        for st in b['s']:
            if st[0][0] == root and not st[0][1]:
                return True
        if b['t'][0] == 'call' and b['t'][4][0] == root:
            return True
    return False


def undischarged_bounds(f):
    """bounds-check asserts (slice/array indexing that panics when index >= len) not discharged by a must-pass test
    `index < len` on the same index value and the same buffer's length. Returns [(bb, line, why)], and the count examined."""
    out = []
    n = 0
    defs = None
    for i, b in enumerate(f.bbs):
        t = b['t']
        if b['cleanup'] or t[0] != 'assert' or t[1] != 'bounds' or len(t) < 6:
            continue
        n += 1
        defs = defs or A.Defs(f)
        isig, lsig = val_sig(f, defs, t[4]), val_sig(f, defs, t[5])
        if isig[0] == 'k' and lsig[0] == 'k' and isinstance(isig[1], int) and isinstance(lsig[1], int) and isig[1] < lsig[1]:
            continue
        ok = False
        for (a, s_) in A.must_pass_edges(f, i):
            l = switch_local(f, a)
            d = A.single_def(defs, l) if l is not None else None
            if not d or d[2] != 'st' or d[3][1][0] != 'bin' or d[3][1][1] not in ('Lt', 'Gt'):
                continue
            sw = f.bbs[a]['t']
            if not all(v == '0' for v, _ in sw[2]) or s_ != sw[3]:
                continue
            rv = d[3][1]
            small, big = (rv[2], rv[3]) if rv[1] == 'Lt' else (rv[3], rv[2])
            if val_sig(f, defs, small) == isig and val_sig(f, defs, big) == lsig:
                roots = [x[1] for x in (isig,) if x[0] == 'l']
                if not any(_assigned_between(f, s_, i, r_) for r_ in roots):
                    ok = True
        if not ok and isig[0] == 'k' and isinstance(isig[1], int) and lsig[0] == 'len':
            # constant index: a must-pass test that bounds the same buffer's length from below
            lb = _len_lower_bound(f, defs, i, lsig)
            if lb is not None and isig[1] < lb:
                ok = True
        if not ok:
            out.append((i, t[3], 'index %s, length %s' % (isig, lsig)))
    return out, n


def _len_lower_bound(f, defs, bb, lsig):
    """largest k such that a must-pass edge to bb implies len >= k for the buffer named by lsig
    (is_empty() false edge: 1; len < k false edge / len >= k true edge: k; len > k true: k+1; len == k true: k)"""
    best = None
    for (a, s_) in A.must_pass_edges(f, bb):
        l = switch_local(f, a)
        d = A.single_def(defs, l) if l is not None else None
        sw = f.bbs[a]['t']
        if not d or not all(v == '0' for v, _ in sw[2]):
            continue
        taken_true = (s_ == sw[3])
        k = None
        if d[2] == 'call' and re.search(r'::is_empty$', d[3].resolved) and d[3].args and d[3].args[0][0] != 'k':
            if ('len',) + _buffer_root(f, defs, d[3].args[0]) == lsig and not taken_true:
                k = 1
        elif d[2] == 'st' and d[3][1][0] == 'bin' and d[3][1][1] in ('Lt', 'Le', 'Gt', 'Ge', 'Eq', 'Ne'):
            rv = d[3][1]
            a_, b_ = val_sig(f, defs, rv[2]), val_sig(f, defs, rv[3])
            op = rv[1]
            if b_ == lsig and a_[0] == 'k':
                a_, b_ = b_, a_
                op = {'Lt': 'Gt', 'Gt': 'Lt', 'Le': 'Ge', 'Ge': 'Le', 'Eq': 'Eq', 'Ne': 'Ne'}[op]
            if a_ == lsig and b_[0] == 'k' and isinstance(b_[1], int):
                c = b_[1]
                if taken_true:
                    k = {'Ge': c, 'Gt': c + 1, 'Eq': c}.get(op)
                else:
                    k = {'Lt': c, 'Le': c + 1, 'Ne': c}.get(op)
        if k is not None and (best is None or k > best):
            best = k
    return best


RANGE_INDEX = re.compile(r'ops::Index(Mut)?<I> for \[T\]>::index(_mut)?$|as std::ops::Index(Mut)?<I>>::index(_mut)?$|Index(Mut)?<.*Range.*>>::index(_mut)?$|'
                         r'::(split_at|split_at_mut|split_off)$')


def _le_guard(f, defs, bb, small_sig, big_sig):
    """must-pass test implying small <= big (small < big or small <= big on the taken edge)"""
    for (a, s_) in A.must_pass_edges(f, bb):
        l = switch_local(f, a)
        d = A.single_def(defs, l) if l is not None else None
        sw = f.bbs[a]['t']
        if not d or d[2] != 'st' or d[3][1][0] != 'bin' or not all(v == '0' for v, _ in sw[2]):
            continue
        rv = d[3][1]
        taken_true = (s_ == sw[3])
        x, y = val_sig(f, defs, rv[2]), val_sig(f, defs, rv[3])
        op = rv[1]
        if (x, y) == (big_sig, small_sig):
            x, y = y, x
            op = {'Lt': 'Gt', 'Gt': 'Lt', 'Le': 'Ge', 'Ge': 'Le'}.get(op, op)
        if (x, y) != (small_sig, big_sig):
            continue
        if (taken_true and op in ('Lt', 'Le', 'Eq')) or (not taken_true and op in ('Gt', 'Ge')):
            return True
    return False


def undischarged_ranges(f):
    """range-index / split_at calls on slices (panic when a bound exceeds the length) whose bounds are not discharged:
    a bound is fine when it is the buffer's own len(), a constant not above a must-pass lower bound of the length, or
    is covered by a must-pass test bound <= len."""
    out = []
    n = 0
    defs = None
    for c in A.calls(f):
        if c.exp or not RANGE_INDEX.search(c.resolved) or len(c.args) < 2:
            continue
        defs = defs or A.Defs(f)
        lsig = ('len',) + _buffer_root(f, defs, c.args[0])
        bounds = []
        a1 = c.args[1]
        if a1[0] == 'k':
            continue   # RangeFull
        d = A.single_def(defs, a1[1][0]) if not a1[1][1] else None
        if d and d[2] == 'st' and d[3][1][0] == 'agg' and re.search(r'ops::Range(From|To|Inclusive|ToInclusive)?$', d[3][1][1]):
            kind = d[3][1][1].split('::')[-1]
            ops = d[3][1][2]
            incl = 1 if 'Inclusive' in kind else 0
            # the last operand is the upper bound except for RangeFrom
            ub = ops[0] if kind in ('RangeFrom', 'RangeTo', 'RangeToInclusive') else ops[-1]
            bounds = [(ub, incl)]
        elif re.search(r'::(split_at|split_at_mut|split_off)$', c.resolved):
            bounds = [(a1, 0)]
        elif d and d[2] == 'st' and d[3][1][0] == 'agg' and d[3][1][1].endswith('RangeFull'):
            continue
        else:
            if f.locals[a1[1][0]] in ('usize',):
                continue   # plain index handled by the bounds-check assert
            if 'RangeFull' in f.locals[a1[1][0]]:
                continue
            bounds = [(a1, 0)]
        n += 1
        for (b_, incl) in bounds:
            bs = val_sig(f, defs, b_)
            if incl == 0 and bs == lsig:
                continue
            if bs[0] == 'k' and isinstance(bs[1], int):
                lb = _len_lower_bound(f, defs, c.bb, lsig)
                if bs[1] + incl <= (lb or 0):
                    continue
            if incl == 0 and _le_guard(f, defs, c.bb, bs, lsig):
                continue
            out.append((c.bb, c.line, 'bound %s%s, length %s' % (bs, ' (inclusive)' if incl else '', lsig)))
            break
    return out, n


_ARITH = re.compile(r'saturating_|wrapping_|checked_|::len$|::min$|::max$|::from$|::into$|try_from$|::unwrap\w*$|::expect$|Try>::branch$|from_residual$')


def size_policies(f, lenient=False):
    """comparisons `data-derived size  <,>  bound` where the bound is made of constants (and other lengths) only — a size policy
    of this function, as opposed to a comparison with the file length, a configured field or a parameter, or format arithmetic
    with small constants (< 64). Returns [(line, op, frozenset(constant strings))]."""
    out = []
    defs = A.Defs(f)
    for i, b in enumerate(f.bbs):
        if b['cleanup'] or b['t'][0] != 'sw':
            continue
        l = switch_local(f, i)
        d = A.single_def(defs, l) if l is not None else None
        if not d or d[2] != 'st' or d[3][1][0] != 'bin' or d[3][1][1] not in ('Gt', 'Ge', 'Lt', 'Le'):
            continue
        rv = d[3][1]
        for si, oi in ((2, 3), (3, 2)):
            S = A.backward_slice(f, [rv[si]], defs)
            if not (any(re.search(r'from_(le|be|ne)_bytes$|::len$', x) for x in S.calls) or val_sig(f, defs, rv[si])[0] == 'len'):
                continue
            # the bound may be built from another buffer's length: stop at len() — what filled that buffer is not part of the bound
            O = A.backward_slice(f, [rv[oi]], defs, cut_calls=[('re', r'::len$')])
            # a bound may depend on the length of another buffer (a ratio policy), not on a scalar / config parameter
            scalar_params = [p_ for p_ in O.params if not re.search(r'\[|Vec<|str\b|Bytes', f.locals[p_])]
            if not lenient and (O.fields or scalar_params or [x for x in O.calls if not _ARITH.search(x)]):
                continue
            consts = set(O.consts)
            if rv[oi][0] == 'k':
                consts.add(rv[oi][1])
            big = set()
            for k in consts:
                v = A._const_val(k)
                if v is None or (isinstance(v, int) and v >= 64):
                    big.add(k)
            if big:
                out.append((d[3][2] if len(d[3]) > 2 else f.line, rv[1], frozenset(big)))
                break
    return out


def reader_only_policies(reader_fns, writer_fns):
    """size policies applied by a reader that no writer applies (matched by the constants involved)"""
    wconsts = set()
    for g in writer_fns:
        # on the writer side any size comparison whose bound involves the constant counts (min(limit, CONST), …)
        for (_, _, cs) in size_policies(g, lenient=True):
            wconsts |= set(cs)
    out = []
    n = 0
    for g in reader_fns:
        for (line, op, cs) in size_policies(g):
            n += 1
            if not (set(cs) & wconsts):
                out.append((g, line, op, sorted(cs)))
    return out, n


def _indexed_bases(f, defs, op, depth=0, seen=None):
    """buffers an operand was read from by indexing (`buf[i]`), following copies and references"""
    out = set()
    if op[0] == 'k' or depth > 8:
        return out
    seen = seen if seen is not None else set()
    l, proj = op[1][0], op[1][1]
    if any(isinstance(p_, str) and p_.startswith('[') for p_ in proj):
        base_proj = []
        for p_ in proj:
            if isinstance(p_, str) and p_.startswith('['):
                break
            base_proj.append(p_)
        out.add(_buffer_root(f, defs, ['c', [l, base_proj]]))
        return out
    if l in seen:
        return out
    seen.add(l)
    for (_, _, k, p) in defs.defs.get(l, []):
        if k == 'st':
            rv = p[1]
            if rv[0] == 'ref':
                out |= _indexed_bases(f, defs, ['c', rv[1]], depth + 1, seen)
            elif rv[0] in ('use', 'cast'):
                out |= _indexed_bases(f, defs, rv[1], depth + 1, seen)
        elif k == 'call' and re.search(r'Index(Mut)?<.*>>::index(_mut)?$|::get_unchecked$', p.resolved) and p.args:
            out.add(_buffer_root(f, defs, p.args[0]))
    return out


def merge_compare_sites(f):
    """ordering comparisons (cmp / < / >) between an element of one integer buffer and an element of another — the two-cursor
    merge shape, which is only correct on sorted inputs. Returns [(line, baseA, baseB, sortedA, sortedB)]."""
    out = []
    defs = A.Defs(f)
    sorts = set()
    for c in A.calls(f):
        if re.search(r'::(sort|sort_unstable|sort_by|sort_by_key|sort_unstable_by|sort_unstable_by_key)$', c.resolved) and c.args:
            sorts.add(_buffer_root(f, defs, c.args[0]))
    cands = []
    for i, b in enumerate(f.bbs):
        if b['cleanup']:
            continue
        for st in b['s']:
            rv = st[1]
            if rv[0] == 'bin' and rv[1] in ('Lt', 'Gt', 'Le', 'Ge'):
                cands.append((st[2], rv[2], rv[3]))
        t = b['t']
        if t[0] == 'call':
            c = A.Call(i, t)
            if re.search(r'Ord for u(64|32|size)>::cmp$|PartialOrd for u(64|32|size)>::(partial_cmp|lt|gt|le|ge)$', c.resolved) and len(c.args) >= 2:
                cands.append((c.line, c.args[0], c.args[1]))
    for (line, x, y) in cands:
        bx, by = _indexed_bases(f, defs, x), _indexed_bases(f, defs, y)
        if bx and by and not (bx & by):
            a_, b_ = sorted(bx)[0], sorted(by)[0]
            out.append((line, a_, b_, a_ in sorts, b_ in sorts))
    return out


# ----------------------------------------------------------------------------------------------------------------
# Wrappers: behaviour-preserving refactorings move a check / a lock / a persist call into a private helper.
# A rule that needs "passed X" must accept "passed a helper that returns success only after X".

def returns_success_without(g, cut_edges):
    """can g return success (Ok / Some / true / a plain value) with these edges cut?"""
    rt = g.locals[0] if g.locals else ''
    if rt == 'bool':
        vals = A.return_bool_values(g, cut_edges=cut_edges)
        return (True in vals) or (None in vals)
    return bool(success_return_reachable(g, [0], cut_edges=cut_edges))


def guard_wrappers(cg, prefix, local_edges, rounds=3):
    """names of crate functions (under `prefix`) that return success only through local_edges(g, W): a fixpoint over
    helper-of-helper. local_edges(g, W) must include the Ok-edges of g's calls to functions already in W (use wrapper_ok_edges)."""
    W = set()
    for _ in range(rounds):
        new = set()
        for n, g in cg.fns.items():
            if n in W or not n.startswith(prefix) or '{closure' in n:
                continue
            e = local_edges(g, W)
            if e and not returns_success_without(g, e):
                new.add(n)
        if not new:
            break
        W |= new
    return W


def wrapper_ok_edges(f, W, uses=None):
    """Ok / true / Some edges of f's calls to functions in W"""
    out = set()
    if not W:
        return out
    uses = uses or A.Uses(f)
    for c in A.calls(f):
        if c.resolved in W:
            out |= A.call_outcome(f, c, uses).ok
    return out


def transitive_calls(cg, f, blocks, matcher, prefix, depth=3):
    """callee names matching `matcher` performed in the given blocks of f, directly or through crate-local callees
    (under `prefix`, followed to `depth`); closures created in those blocks count as called there."""
    out = set()
    seen = set()

    def walk(name, d):
        if name in seen or name not in cg.fns:
            return
        seen.add(name)
        g = cg.fns[name]
        for c in A.calls(g):
            if matcher(c.resolved):
                out.add(c.resolved)
            elif d > 0 and c.resolved.startswith(prefix):
                walk(c.resolved, d - 1)
        for n2 in cg.fns:
            if n2.startswith(name + '::{closure'):
                walk(n2, d)
    bl = set(blocks) if blocks is not None else None
    for c in A.calls(f):
        if bl is not None and c.bb not in bl:
            continue
        if matcher(c.resolved):
            out.add(c.resolved)
        elif c.resolved.startswith(prefix):
            walk(c.resolved, depth - 1)
    # closures created in those blocks
    for i, b in enumerate(f.bbs):
        if bl is not None and i not in bl:
            continue
        for st in b['s']:
            if st[1][0] == 'agg' and '{closure' in st[1][1]:
                for n2 in cg.fns:
                    if st[1][1].endswith(n2) or n2.endswith(st[1][1]):
                        walk(n2, depth - 1)
    return out


# ----------------------------------------------------------------------------------------------------------------
# Condition atoms: what is known to hold on an edge, looking through named bool locals, `a && b`, negation and
# closure predicates (`opt.is_some_and(|x| x.f == y)`, `iter.any(..)`), so that a rule does not depend on whether
# the test is written inline, bound to a name first, or passed as a closure.

NEG = {'Eq': 'Ne', 'Ne': 'Eq', 'Lt': 'Ge', 'Ge': 'Lt', 'Gt': 'Le', 'Le': 'Gt'}
CLOSURE_PRED = re.compile(r'::(is_some_and|is_ok_and|is_none_or|any|all|map_or|map_or_else|filter|find|position|take_while|skip_while|retain)$')


class Atom:
    __slots__ = ('kind', 'op', 'a', 'b', 'fn', 'defs', 'call', 'pol')

    def __init__(self, kind, fn, defs, op=None, a=None, b=None, call=None, pol=True):
        self.kind, self.fn, self.defs, self.op, self.a, self.b, self.call, self.pol = kind, fn, defs, op, a, b, call, pol

    def side_slices(self):
        return [A.backward_slice(self.fn, [x], self.defs) for x in (self.a, self.b)]

    def __repr__(self):
        if self.kind == 'cmp':
            return 'Atom(%s in %s)' % (self.op, short(self.fn.name))
        return 'Atom(%s%s in %s)' % ('' if self.pol else '!', short(self.call.resolved), short(self.fn.name))


def _closure_of(fns, f, defs, op):
    """the closure body an operand refers to (the operand is the closure value or a reference to it)"""
    if op[0] == 'k':
        m = re.search(r'([\w:<>, ]+::\{closure#\d+\}(::\{closure#\d+\})*)', op[1])
        return fns.get(m.group(1)) if m else None
    l = op[1][0]
    for _ in range(4):
        d = A.single_def(defs, l)
        if not d or d[2] != 'st':
            break
        rv = d[3][1]
        if rv[0] == 'agg' and '{closure' in rv[1]:
            for n in fns:
                if n == rv[1] or rv[1].endswith(n) or n.endswith(rv[1]):
                    return fns[n]
            return None
        if rv[0] in ('use', 'ref'):
            pl = rv[1] if rv[0] == 'ref' else (rv[1][1] if rv[1][0] != 'k' else None)
            if pl is None:
                break
            l = pl[0]
            continue
        break
    return None


def implied_atoms(fns, f, defs, local, pol=True, depth=0):
    """atoms that hold whenever `local` (a bool) has value `pol`"""
    if depth > 6:
        return []
    dl = [d for d in defs.defs.get(local, []) if d[2] != 'callmut']
    if not dl:
        return []
    if len(dl) > 1:
        # `a && b` / `a || b`: one side is a constant
        consts = [d for d in dl if d[2] == 'st' and d[3][1][0] == 'use' and d[3][1][1][0] == 'k']
        others = [d for d in dl if d not in consts]
        cvals = {bool(A._const_val(d[3][1][1][1])) for d in consts if A._const_val(d[3][1][1][1]) is not None}
        if len(others) == 1 and cvals == {not pol}:
            d = others[0]
            out = _atoms_of_def(fns, f, defs, d, pol, depth)
            # … and the tests that select that definition
            for (a_, s_) in A.must_pass_edges(f, d[0]):
                l2 = switch_local(f, a_)
                t = f.bbs[a_]['t']
                if l2 is not None and all(v == '0' for v, _ in t[2]):
                    out += implied_atoms(fns, f, defs, l2, s_ == t[3], depth + 1)
            return out
        return []
    return _atoms_of_def(fns, f, defs, dl[0], pol, depth)


def _atoms_of_def(fns, f, defs, d, pol, depth):
    if d[2] == 'st':
        rv = d[3][1]
        if rv[0] == 'bin' and rv[1] in NEG:
            return [Atom('cmp', f, defs, op=rv[1] if pol else NEG[rv[1]], a=rv[2], b=rv[3])]
        if rv[0] == 'un' and rv[1] == 'Not' and rv[2][0] != 'k' and not rv[2][1][1]:
            return implied_atoms(fns, f, defs, rv[2][1][0], not pol, depth + 1)
        if rv[0] == 'use' and rv[1][0] != 'k' and not rv[1][1][1]:
            return implied_atoms(fns, f, defs, rv[1][1][0], pol, depth + 1)
        return []
    if d[2] == 'call':
        c = d[3]
        out = [Atom('call', f, defs, call=c, pol=pol)]
        name = c.resolved.split('::')[-1]
        if CLOSURE_PRED.search(c.resolved) or CLOSURE_PRED.search(c.generic):
            positive = (name in ('is_some_and', 'is_ok_and', 'any', 'map_or', 'map_or_else') and pol) or (name in ('all', 'is_none_or') and not pol and False)
            if positive:
                for a in c.args[1:]:
                    g = _closure_of(fns, f, defs, a)
                    if g is not None and g.locals and g.locals[0] == 'bool':
                        gd = A.Defs(g)
                        out += implied_atoms(fns, g, gd, 0, True, depth + 1)
        elif re.search(r'PartialEq(<.*>)?>?::(eq|ne)$', c.generic) and len(c.args) >= 2:
            is_eq = c.generic.endswith('eq')
            out.append(Atom('cmp', f, defs, op='Eq' if (is_eq == pol) else 'Ne', a=c.args[0], b=c.args[1]))
        return out
    return []


def must_pass_atoms(fns, f, defs, bb):
    """atoms that hold on every path from the entry to block bb"""
    out = []
    for (a, s_) in A.must_pass_edges(f, bb):
        l = switch_local(f, a)
        t = f.bbs[a]['t']
        if l is None or not all(v == '0' for v, _ in t[2]):
            continue
        out += implied_atoms(fns, f, defs, l, s_ == t[3])
    return out


def slice_fields_deep(fns, sl, prefix, depth=2):
    """fields read on a slice, including those read inside crate-local helpers the slice calls (a value obtained through
    `self.last_entry_index_and_term()` depends on what that helper reads)"""
    out = set(sl.fields)
    seen = set()
    work = [(x, depth) for x in sl.calls]
    for cname in getattr(sl, 'closures', ()):
        for n in fns:
            if n == cname or cname.endswith(n) or n.endswith(cname):
                work.append((n, depth))
    while work:
        n, d = work.pop()
        if n in seen or n not in fns or not (n.startswith(prefix) or n.startswith('<')):
            continue
        seen.add(n)
        g = fns[n]
        out |= set(A.field_reads(g).keys())
        for n2 in fns:
            if n2.startswith(n + '::{closure'):
                work.append((n2, d))
        if d > 0:
            for c in A.calls(g):
                work.append((c.resolved, d - 1))
    return out


ORDER_ASSUMING = re.compile(r'::(binary_search|binary_search_by|binary_search_by_key|partition_point|dedup|dedup_by|dedup_by_key)$')


def order_assuming_calls(f):
    """calls that are only correct on a sorted slice (binary_search*, partition_point, dedup*), with whether the receiver is
    sorted earlier in the same function. Returns [(call, receiver_root, sorted_here)]."""
    out = []
    defs = None
    sorts = None
    for c in A.calls(f):
        if c.exp or not ORDER_ASSUMING.search(c.resolved) or not c.args or c.args[0][0] == 'k':
            continue
        defs = defs or A.Defs(f)
        if sorts is None:
            sorts = set()
            for x in A.calls(f):
                if re.search(r'::(sort|sort_unstable|sort_by|sort_by_key|sort_unstable_by|sort_unstable_by_key)$', x.resolved) and x.args:
                    sorts.add(_buffer_root(f, defs, x.args[0]))
        root = _buffer_root(f, defs, c.args[0])
        out.append((c, root, root in sorts))
    return out
