"""C11 Linearizability of the store — structural part."""
import re
import analyses as A
import lib
import witness
import lockgraph as LG
import c02

SR = 'tensor_store::slab_router::SlabRouter::'
MS = 'tensor_store::metadata_slab::MetadataSlab::'
TW = 'tensor_store::wal::TensorWal::'
ASSUMPTIONS = ['linearizability of histories is not decided here; these are necessary conditions on lock coverage']
SLAB_FIELDS = ('index', 'embeddings', 'metadata', 'graph', 'relations', 'blobs', 'cache')


def r11a(ctx, rep, cr):
    rep.rule('R11a', 'MetadataSlab::{get, set, delete, contains} acquire exactly one guard (and call no sibling method that takes one), on the shard selected by shard_index(key), '
                     'and every BTreeMap operation happens while that guard is live on all paths')
    for name in ('get', 'set', 'delete', 'contains'):
        f = rep.require_fn('R11a', cr, MS + name)
        if f is None:
            continue
        defs = A.Defs(f)
        # one operation = one critical section: no second acquisition hidden in a sibling method (`self.delete(key)` then insert)
        sib = [c for c in A.calls(f) if c.resolved.startswith(MS) and c.resolved != f.name and c.resolved in cr.fns and
               any(g_.acq_calls for g_ in A.guards(cr.fns[c.resolved], A.Defs(cr.fns[c.resolved])))]
        if sib:
            rep.violation('R11a', f, 'two-critical-sections', f.loc(sib[0].line),
                          '%s also calls %s, which takes the shard lock on its own: the operation is split over two critical sections, and '
                          'between them a concurrent reader sees a state no single operation produces (a key that was put and never deleted '
                          'is absent)' % (lib.short(f.name), lib.short(sib[0].resolved)))
            continue
        gs = [g for g in A.guards(f, defs) if g.acq_calls]
        if len(gs) != 1 or len(gs[0].acq_calls) != 1:
            rep.violation('R11a', f, 'guards', f.loc(), 'expected exactly one shard guard acquisition, found %d' % sum(len(g.acq_calls) for g in gs))
            continue
        g = gs[0]
        # the lock operand is shards[shard_index(key)]
        bb, idx = g.acq_calls[0]
        call = A.Call(bb, f.bbs[bb]['t'])
        sel_ok = False
        a0 = call.arg_local(0)
        d = A.single_def(defs, a0) if a0 is not None else None
        if d and d[2] == 'st' and d[3][1][0] == 'ref':
            pl = d[3][1][1]
            idxs = [p for p in pl[1] if isinstance(p, str) and re.match(r'^\[\d+\]$', p)]
            if any(x.endswith('MetadataSlab.shards') for x in A.place_fields(pl)) and idxs:
                il = int(idxs[0][1:-1])
                sl = A.backward_slice(f, [il], defs)
                names = {v[0]: k for k, v in f.d['names'].items() if not v[1]}
                if any(c.endswith('metadata_slab::shard_index') for c in sl.calls) and any(names.get(p) == 'key' for p in sl.params):
                    sel_ok = True
        if not sel_ok:
            rep.violation('R11a', f, 'shard-selection', f.loc(), 'the shard lock is not selected by shard_index(key)')
            continue
        ops = [c for c in A.calls(f) if re.search(r'BTreeMap::<K, V, A>::(get|insert|remove|contains_key|get_mut|entry)$', c.generic)]
        if not ops:
            rep.violation('R11a', f, 'map-op', f.loc(), 'anchor-missing: no BTreeMap operation')
            continue
        allg = [x for x in A.guards(f, defs) if LG.lock_id(x) == LG.lock_id(g)]
        lv = [A.live_positions(f, x.acq, x.kills, must=True) for x in allg]
        bad = [c for c in ops if not any(A.live_at(l, (c.bb, len(f.bbs[c.bb]['s']))) for l in lv)]
        if bad:
            rep.violation('R11a', f, 'op-outside-lock', f.loc(bad[0].line), 'a map operation happens while the shard guard is not held')
        else:
            rep.holds('R11a', f, 'one shard lock', '%d map op(s) under the guard' % len(ops))


def r11b(ctx, rep, cr):
    rep.rule('R11b', 'put_durable / delete_durable: at every in-memory apply site reachable from the WAL guard acquisition, that guard '
                     'is still live (durable order = memory order); sites not reachable from the acquisition (no WAL) are vacuous')
    for fname, apply_name in (('put_durable', SR + 'put'), ('delete_durable', SR + 'delete')):
        f = rep.require_fn('R11b', cr, SR + fname)
        if f is None:
            continue
        defs = A.Defs(f)
        gs = [g for g in A.guards(f, defs) if g.acq_calls and any(x.endswith('SlabRouter.wal') for x in g.lock_fields)]
        if not gs:
            opt = [l for l, t in enumerate(f.locals) if t.startswith('std::option::Option<') and 'MutexGuard' in t]
            if opt:
                rep.unresolved_instance('R11b', f, 'wal guard', 'the WAL guard is wrapped in Option<…>')
            else:
                rep.violation('R11b', f, 'wal-guard', f.loc(), 'anchor-missing: no guard on SlabRouter.wal')
            continue
        g = gs[0]
        allg = [x for x in A.guards(f, defs) if any(y.endswith('SlabRouter.wal') for y in x.lock_fields)]
        acq_bb = g.acq_calls[0][0]
        R = A.reachable(f, [acq_bb])
        applies = [c for c in A.calls_to(f, apply_name) if c.bb in R]
        if not applies:
            rep.violation('R11b', f, 'apply', f.loc(), 'anchor-missing: no apply call reachable from the WAL guard acquisition')
            continue
        for k, c in enumerate(applies):
            pos = (c.bb, len(f.bbs[c.bb]['s']))
            # live on every path that comes from the acquisition: evaluate may-liveness restricted to paths through acq
            live_may = any(A.live_at(A.live_positions(f, x.acq, x.kills, must=False), pos) for x in allg)
            if live_may:
                rep.holds('R11b', f, 'apply#%d' % k, 'WAL guard live at the apply')
            else:
                rep.violation('R11b', f, 'apply-after-unlock', f.loc(c.line),
                              'the WAL mutex is released before the in-memory %s: two writers can log A,B and apply B,A, so recovery '
                              'yields a state no reader saw' % apply_name.split('::')[-1])


def _slab_calls(f, defs):
    """[(call, slab field)] for calls whose receiver is a SlabRouter slab field."""
    out = []
    for c in A.calls(f):
        if not c.args or c.args[0][0] == 'k' or not c.resolved.startswith('tensor_store::'):
            continue
        fs = A.place_fields(c.args[0][1])
        if not fs:
            fs, _ = A.origin_fields(f, c.args[0][1][0], defs)
        for x in fs:
            m = re.match(r'tensor_store::slab_router::SlabRouter\.(\w+)$', x)
            if m and m.group(1) in SLAB_FIELDS:
                out.append((c, m.group(1)))
                break
    return out


def r11c(ctx, rep, cr):
    rep.rule('R11c', '(i) a SlabRouter::{put, get, delete} arm that touches two or more slabs for one key (embedding class: entity index + '
                     'embedding slab + metadata) holds one guard across all of them; (ii) an operation whose result is decided by one '
                     'locked read (exists) and whose effect is a separate locked write on the same key (metadata.delete) must decide '
                     'from the write\'s own return value or hold one guard over both')
    enum = cr.adts.get('tensor_store::slab_router::KeyClass')
    n = 0
    for name in ('put', 'get', 'delete'):
        f = rep.require_fn('R11c', cr, SR + name)
        if f is None or enum is None:
            continue
        defs = A.Defs(f)
        ds = lib.enum_dispatches(f, 'tensor_store::slab_router::KeyClass')
        if not ds:
            rep.violation('R11c', f, 'dispatch', f.loc(), 'anchor-missing: no dispatch on KeyClass')
            continue
        sw = ds[-1]
        tg = lib.variant_targets(enum, sw[1])
        sc = _slab_calls(f, defs)
        guards = A.guards(f, defs)
        others = {v: tb for v, tb in tg.items()}
        for v, tb in sorted(tg.items()):
            # blocks of this arm: reachable from its target without entering another arm's target
            stop = {b for vv, b in others.items() if b != tb}
            R = A.reachable(f, [tb], cut_blocks=stop)
            arm = [(c, s) for (c, s) in sc if c.bb in R and c.bb not in A.reachable(f, list(stop), cut_blocks={tb})]
            slabs = sorted({s for _, s in arm})
            if len(slabs) < 2:
                continue
            n += 1
            common = None
            for (c, s) in arm:
                held = {g.local for g in guards if A.live_at(A.live_positions(f, g.acq, g.kills, must=True), (c.bb, len(f.bbs[c.bb]['s'])))}
                common = held if common is None else (common & held)
            if common:
                rep.holds('R11c', f, 'arm ' + v, 'one guard across %s' % slabs)
            else:
                rep.violation('R11c', f, 'multi-slab-' + v, f.loc(arm[0][0].line),
                              'a %s key is handled by %d separate locked operations on %s with no common guard: two racing writers can '
                              'leave one slab with A\'s data and another with B\'s' % (v, len(arm), slabs))
    rep.floor('R11c', 'multi-slab arms', n, 3)
    # (ii) check-then-act
    f = cr.fns.get(SR + 'delete')
    if f is not None:
        defs, uses = A.Defs(f), A.Uses(f)
        ex = A.calls_to(f, SR + 'exists')
        md = A.calls_to(f, MS + 'delete')
        guards = A.guards(f, defs)
        if ex and md:
            for k, c in enumerate(md):
                o = A.call_outcome(f, c, uses)
                decides = bool(o.ok or o.err or o.returned)
                spans = any(A.live_at(A.live_positions(f, g.acq, g.kills, must=True), (ex[0].bb, len(f.bbs[ex[0].bb]['s']))) and
                            A.live_at(A.live_positions(f, g.acq, g.kills, must=True), (c.bb, len(f.bbs[c.bb]['s']))) for g in guards)
                if decides or spans:
                    rep.holds('R11c', f, 'delete#%d result' % k, 'decided by the removal itself' if decides else 'one guard over check and removal')
                else:
                    arm = 'other'
                    ds2 = lib.enum_dispatches(f, 'tensor_store::slab_router::KeyClass')
                    if ds2 and enum is not None:
                        tg2 = lib.variant_targets(enum, ds2[-1][1])
                        for v2, tb2 in tg2.items():
                            stop2 = {b for b in tg2.values() if b != tb2}
                            if list(tg2.values()).count(tb2) == 1 and c.bb in A.reachable(f, [tb2], cut_blocks=stop2) \
                                    and c.bb not in A.reachable(f, list(stop2), cut_blocks={tb2}):
                                arm = v2
                    rep.violation('R11c', f, 'check-then-act-' + arm, f.loc(c.line),
                                  'delete answers Ok/NotFound from exists(key) and then removes with metadata.delete(key), ignoring what the '
                                  'removal returned: two concurrent deletes of one key both return Ok, which no sequential order allows')
        elif md:
            for k, c in enumerate(md):
                o = A.call_outcome(f, c, uses)
                if o.ok or o.err or o.returned:
                    rep.holds('R11c', f, 'delete#%d result' % k, 'decided by the removal itself')
                else:
                    rep.violation('R11c', f, 'delete-result-ignored', f.loc(c.line), 'the result of metadata.delete is ignored and nothing else decides NotFound')
        else:
            rep.violation('R11c', f, 'delete-shape', f.loc(), 'anchor-missing: SlabRouter::delete no longer calls MetadataSlab::delete')


def r11d(ctx, rep, cr):
    rep.rule('R11d', 'the membership filter never lags the data: in every TensorStore method that both adds a key to the Bloom filter and '
                     'writes it through the router (put, put_durable, …), the filter add precedes the router write on every path — get() and '
                     'exists() answer NotFound from the filter alone, so a key that scan() already lists must already be in it')
    n = 0
    for name, f in cr.fns.items():
        if not name.startswith('tensor_store::TensorStore::') or '{closure' in name:
            continue
        adds = [c for c in A.calls(f) if re.search(r'BloomFilter::add$', c.resolved)]
        writes = [c for c in A.calls(f) if re.search(r'slab_router::SlabRouter::(put|put_durable|batch_put\w*)$', c.resolved)]
        if not adds or not writes:
            continue
        n += 1
        rep.analysed(f)
        # the add sits under `if let Some(filter) = self.bloom_filter`: cut the add blocks and the no-filter bypass
        cd = A.control_deps(f)
        bypass = set()
        for c in adds:
            for (a, s2) in cd.get(c.bb, ()):
                for s3 in set(A.succs(f, a)):
                    if s3 != s2:
                        bypass.add((a, s3))
        R = A.reachable(f, [0], cut_blocks={c.bb for c in adds}, cut_edges=bypass)
        late = [w for w in writes if w.bb in R]
        if late:
            rep.violation('R11d', f, 'write-before-filter-add', f.loc(late[0].line),
                          'with a Bloom filter configured the router write is reachable before the key is added to the filter: a concurrent reader '
                          'sees the key in a scan and is told NotFound by get()/exists()')
        else:
            rep.holds('R11d', f, 'filter add → write', '')
    rep.floor('R11d', 'TensorStore methods adding to the filter and writing', n, 2)


def r11e(ctx, rep, cr):
    rep.rule('R11e', 'get-or-create re-checks under its write guard: in EntityIndex::try_get_or_create the push of a new vocabulary entry is '
                     'reachable from the acquisition of the vocabulary/reverse write guards only through a test whose condition depends both '
                     'on data read through one of those guards and on the key (the double-check); the lock-free get() before the guards does '
                     'not count — two threads that both miss it would each allocate an id for one key')
    f = rep.require_fn('R11e', cr, 'tensor_store::entity_index::EntityIndex::try_get_or_create')
    if f is None:
        return
    defs = A.Defs(f)
    gs = [g for g in A.guards(f, defs) if 'Write' in (A.guard_kind(g.ty) or '') and
          any(x.endswith('EntityIndex.vocabulary') or x.endswith('EntityIndex.reverse') for x in g.lock_fields)]
    pushes = []
    for c in A.calls(f):
        if re.search(r'Vec::<T, A>::(push|insert)$', c.generic) and c.args and c.args[0][0] != 'k':
            sl = A.backward_slice(f, [c.args[0]], defs)
            if any(g.local in sl.locals for g in gs if any(x.endswith('EntityIndex.vocabulary') for x in g.lock_fields)):
                pushes.append(c)
    if not gs or not pushes:
        rep.violation('R11e', f, 'shape', f.loc(), 'anchor-missing: write guards on vocabulary/reverse (%d) or the vocabulary push (%d) not found' % (len(gs), len(pushes)))
        return
    glocals = {g.local for g in gs}
    tests = set()
    for i, b in enumerate(f.bbs):
        if b['cleanup'] or b['t'][0] != 'sw':
            continue
        l = lib.switch_local(f, i)
        if l is None:
            continue
        sl = A.backward_slice(f, [l], defs)
        if (sl.locals & glocals) and (2 in sl.params):
            tests.add(i)
    starts = []
    for g in gs:
        for (bb, idx) in g.acq_calls:
            t = f.bbs[bb]['t']
            if t[0] == 'call' and t[5] is not None and t[5] >= 0:
                starts.append(t[5])
    R = A.reachable(f, starts, cut_blocks=tests)
    for k, c in enumerate(pushes):
        if c.bb in R:
            rep.violation('R11e', f, 'no-recheck', f.loc(c.line),
                          'a new vocabulary entry is appended after taking the write guards without re-checking, under those guards, whether '
                          'the key was inserted meanwhile: two concurrent puts of one new key each allocate an entity id; delete tombstones '
                          'one of them and the key is still readable afterwards with the other writer\'s value')
        else:
            rep.holds('R11e', f, 'push#%d after re-check' % k, '%d test(s) on guard data and key' % len(tests))


def r11f(ctx, rep, cr):
    rep.rule('R11f', 'a prefix scan is one critical section: in MetadataSlab::scan / scan_count / scan_filter_map, once the prefix is known '
                     'to be non-empty (the true edge of prefix.is_empty() cut), no code that visits several shards is reachable — neither '
                     'an iteration over MetadataSlab.shards nor a call to a method that contains one. Keys with a common non-empty '
                     'prefix live in one shard; a scan that reads the shards one after another, each under its own lock, can return a '
                     'set of keys that never existed together')
    SH = 'tensor_store::metadata_slab::MetadataSlab.shards'
    slab = {n: f for n, f in cr.fns.items() if n.startswith(MS)}

    def iterates_shards(g):
        d = None
        for c in A.calls(g):
            if re.search(r'::(iter|iter_mut|into_iter|each_ref|par_iter)$', c.resolved) and c.args and c.args[0][0] != 'k':
                d = d or A.Defs(g)
                fs = A.place_fields(c.args[0][1])
                if not fs:
                    fs, _ = A.origin_fields(g, c.args[0][1][0], d)
                if SH in fs:
                    return True
        return False
    multi = {A.parent_fn(n) for n, g in slab.items() if iterates_shards(g)}
    n = 0
    for name, f in sorted(slab.items()):
        if not re.match(re.escape(MS) + r'scan\w*$', name) or name in multi and not A.calls_to(f, ('re', r'str>::is_empty$|impl str>::is_empty$')):
            continue
        ie = A.calls_to(f, ('re', r'impl str>::is_empty$|str::is_empty$'))
        if not ie:
            continue
        n += 1
        rep.analysed(f)
        uses = A.Uses(f)
        cut = set()
        for c in ie:
            cut |= A.call_outcome(f, c, uses).ok
        R = A.reachable(f, [0], cut_edges=cut)
        bad = None
        for c in A.calls(f):
            if c.bb not in R:
                continue
            if c.resolved in multi or A.parent_fn(c.resolved) in multi:
                bad = c
        if bad is None and name in multi:
            # the function itself iterates the shards: is that iteration on the non-empty side?
            d = A.Defs(f)
            for c in A.calls(f):
                if c.bb in R and re.search(r'::(iter|iter_mut|into_iter|each_ref)$', c.resolved) and c.args and c.args[0][0] != 'k':
                    fs = A.place_fields(c.args[0][1])
                    if not fs:
                        fs, _ = A.origin_fields(f, c.args[0][1][0], d)
                    if SH in fs:
                        bad = c
        if bad is not None:
            rep.violation('R11f', f, 'multi-shard-prefix-scan', f.loc(bad.line),
                          'with a non-empty prefix the scan reaches %s, which visits the shards one by one under separate locks: a scan '
                          'racing with writes that land in different shards returns a key set that never existed at any instant' % lib.short(bad.resolved))
        else:
            rep.holds('R11f', f, 'non-empty prefix', 'stays within one shard guard')
    rep.floor('R11f', 'MetadataSlab scan functions with an empty-prefix test', n, 2)
    rep.notes.append('R11f: multi-shard methods = %s' % sorted(lib.short(x) for x in multi))


def r11g(ctx, rep, cr):
    rep.rule('R11g', 'the membership filter only forgets in a whole-store reset: no TensorStore operation the property observes (put, get, '
                     'delete, exists, scan and their durable / batch forms) reaches BloomFilter::clear, itself or through a helper — only '
                     'TensorStore::clear does. put() adds the key to the filter and then writes the router without a lock that spans both, so '
                     'a reset made by a concurrent delete ("the store is empty now") can land between the two and wipe the bits of a key whose '
                     'value is then stored: scan lists it, get and exists answer NotFound from the filter alone')
    cg = A.CallGraph([cr])
    TS = 'tensor_store::TensorStore::'
    clears = [n for n, f in cr.fns.items() if any(re.search(r'BloomFilter::clear$', c.resolved) for c in A.calls(f))]
    rep.floor('R11g', 'functions that reset the filter', len(clears), 1)
    ops = sorted(n for n in cr.fns if n.startswith(TS) and '{closure' not in n and
                 re.search(r'::(put|get|delete|exists|scan|scan_count|scan_filter_map|put_durable|delete_durable|batch_put\w*|batch_get\w*|batch_delete\w*)$', n))
    rep.floor('R11g', 'observed store operations', len(ops), 5)
    for n in ops:
        f = cr.fns[n]
        rep.analysed(f)
        goal = lambda x: re.search(r'BloomFilter::clear$', x) is not None
        p = [n] if any(goal(c.resolved) for c in A.calls(f)) else cg.path(n, goal)
        if p:
            rep.violation('R11g', f, 'filter-reset-in-operation', f.loc(),
                          '%s reaches BloomFilter::clear (%s): a concurrent put that has added its key to the filter and not yet written the '
                          'router loses its filter bits, and the stored key is then unreadable through get / exists' %
                          (lib.short(n), ' → '.join(lib.short(x) for x in p)))
        else:
            rep.holds('R11g', f, 'no filter reset', '')


def run(ctx, rep):
    cr = ctx.crate('tensor_store')
    r11a(ctx, rep, cr)
    r11b(ctx, rep, cr)
    r11c(ctx, rep, cr)
    r11d(ctx, rep, cr)
    r11e(ctx, rep, cr)
    r11f(ctx, rep, cr)
    r11g(ctx, rep, cr)
    import c02
    c02.r02a(ctx, rep, cr)   # durable order = memory order needs the record of every applied change: log first, then apply
    if ctx.tier == 'thorough':
        witness.run(rep, 'R11a', ['MetadataShardsArePrivate'])
