"""Rules shared by C01 and C10 (Raft term / vote persistence)."""
import analyses as A
import lib

PS = 'tensor_chain::raft::PersistentState'
PERSIST = 'tensor_chain::raft::RaftNode::persist_term_and_vote'


def r01a(ctx, rep):
    """persist-before-mutate for PersistentState.{current_term, voted_for}."""
    rep.rule('R01a', 'every MIR write to PersistentState.current_term / voted_for in the workspace is unreachable from the '
                     'function entry once the Ok-edges of persist_term_and_vote calls are cut (write only after a successful '
                     'persist), the persisted value has the same sources as the written one, and the equivalent-guard idiom '
                     '(persist under C1, write under re-evaluated C2 with C1≡C2) is accepted')
    n_term = n_vote = 0
    crates = [ctx.crate(c) for c in ('tensor_chain',)]
    # who-may-write over every extracted crate: other crates cannot name the private struct,
    # but check anyway that no write shows up elsewhere
    for cn in ('tensor_unified', 'tensor_checkpoint', 'query_router'):
        for f in ctx.crate(cn).fns.values():
            for w in A.field_writes(f):
                if w[2].startswith(PS + '.'):
                    rep.violation('R01a', f, w[2], f.loc(w[5]), 'write to Raft persistent state outside tensor_chain')
    persist_fn = rep.require_fn('R01a', crates[0], PERSIST)
    if persist_fn is None:
        return
    # slot check: the persist routine reaches RaftWal::append with a TermAndVote record
    if not any(st[1][0] == 'agg' and st[1][1].endswith('RaftWalEntry::TermAndVote') for b in persist_fn.bbs for st in b['s']) \
            or not A.calls_to(persist_fn, ('re', r'raft_wal::RaftWal(::<.*>)?::append$|RaftWal<.*>::append$|raft_wal::RaftWal.*::append')):
        rep.violation('R01a', persist_fn, 'TermAndVote-append', persist_fn.loc(),
                      'persist_term_and_vote no longer builds a TermAndVote record and appends it to the Raft WAL')
    else:
        # every normal return of the persist routine that says Ok while a WAL is configured must follow a successful append
        defs = A.Defs(persist_fn)
        uses = A.Uses(persist_fn)
        app = A.calls_to(persist_fn, ('re', r'RaftWal.*::append$'))
        cut = set()
        for c in app:
            cut |= A.call_outcome(persist_fn, c, uses).ok
        # the `if let Some(wal) = self.wal` None edge is the no-WAL path: cut it as well
        none_edges = set()
        for i, b in enumerate(persist_fn.bbs):
            if b['cleanup']:
                continue
            for st in b['s']:
                if st[1][0] == 'disc' and any(f.endswith('RaftNode.wal') for f in A.place_fields(st[1][1])):
                    o = A.outcome_edges(persist_fn, st[0][0], kind='disc_option', uses=uses)
                    none_edges |= o.err
        ok_rets = lib.success_return_reachable(persist_fn, [0], cut_edges=cut | none_edges)
        if ok_rets or not app or not none_edges:
            rep.violation('R01a', persist_fn, 'ok-without-append', persist_fn.loc(),
                          'persist_term_and_vote can return Ok with a WAL configured without a successful append '
                          '(append calls=%d, wal-none edges=%d, ok returns reachable=%s)' % (len(app), len(none_edges), ok_rets))
        else:
            rep.holds('R01a', persist_fn, 'Ok only after successful append (or no WAL configured)')
    for f in crates[0].fns.values():
        ws = [w for w in A.field_writes(f) if w[2] in (PS + '.current_term', PS + '.voted_for')]
        if not ws:
            continue
        rep.analysed(f)
        defs = A.Defs(f)
        uses = A.Uses(f)
        pcs = A.calls_to(f, PERSIST)
        ok_edges = set()
        outcomes = {}
        for pc in pcs:
            o = A.call_outcome(f, pc, uses)
            outcomes[pc.bb] = o
            ok_edges |= o.ok
        R = A.reachable(f, [0], cut_edges=ok_edges)
        cd = None
        for (bb, idx, field, place, rv, line) in ws:
            fld = field.split('.')[-1]
            if fld == 'current_term':
                n_term += 1
            else:
                n_vote += 1
            site = '%s' % fld
            if not pcs:
                rep.violation('R01a', f, fld, f.loc(line), 'write to %s with no persist_term_and_vote call in the function' % fld)
                continue
            ok = bb not in R
            how = 'dominated by Ok-edge of persist'
            if not ok:
                # equivalent-guard idiom
                if cd is None:
                    cd = A.control_deps(f)
                ok, how = _equivalent_guard(f, defs, uses, cd, pcs, outcomes, bb)
            if not ok:
                rep.violation('R01a', f, fld, f.loc(line),
                              'PersistentState.%s is written on a path that has not passed a successful persist_term_and_vote (%s)' % (fld, how))
                continue
            # value agreement: what is written is what was persisted
            argi = 1 if fld == 'current_term' else 2
            wsig = lib.value_sig(f, defs, rv[1]) if rv and rv[0] == 'use' else set()
            agree = False
            for pc in pcs:
                psig = lib.value_sig(f, defs, pc.args[argi])
                if wsig & psig or (not wsig and not psig):
                    agree = True
            if not agree:
                rep.violation('R01a', f, fld + '-value', f.loc(line),
                              'value written to %s has no source in common with what any persist call logs (written: %s)' % (fld, sorted(wsig)[:4]))
            else:
                rep.holds('R01a', f, site, how)
    rep.floor('R01a', 'writes to PersistentState.current_term', n_term, 4)
    rep.floor('R01a', 'writes to PersistentState.voted_for', n_vote, 4)


def _guards_of(f, cd, bb):
    """(switch_bb, taken_succ, local) for the switches bb is control dependent on."""
    out = []
    for (a, s) in cd.get(bb, ()):
        l = lib.switch_local(f, a)
        if l is not None:
            out.append((a, s, l))
    return out


def _nonzero_edge(f, a, s):
    t = f.bbs[a]['t']
    return t[0] == 'sw' and t[3] == s and all(v == '0' for v, _ in t[2])


def _equivalent_guard(f, defs, uses, cd, pcs, outcomes, wbb):
    wg = _guards_of(f, cd, wbb)
    for pc in pcs:
        pg = _guards_of(f, cd, pc.bb)
        for (wa, ws_, wl) in wg:
            wsig = lib.cmp_sig(f, defs, wl)
            if not wsig or not _nonzero_edge(f, wa, ws_):
                continue
            for (pa, ps_, pl) in pg:
                psig = lib.cmp_sig(f, defs, pl)
                if psig != wsig or not _nonzero_edge(f, pa, ps_):
                    continue
                # with C1's false edge and the persist's Ok edges cut, the write must be unreachable
                false_edges = {(pa, s) for s in A.succs(f, pa) if s != ps_}
                R = A.reachable(f, [0], cut_edges=outcomes[pc.bb].ok | false_edges)
                if wbb not in R and wsig[0] in ('Gt',):
                    return True, 'equivalent guard %s(%s, %s) re-evaluated; sound because the term never decreases' % (
                        wsig[0], sorted(wsig[1]), sorted(wsig[2]))
    return False, 'no dominating persist and no equivalent guard'
