"""Positive controls: extract selftest/fixtures with the same driver and assert that every analysis
fires on its `bad_*` function and is silent on the `good_*` twin (DESIGN §1, thorough tier)."""
import hashlib, json, os, re, shutil, subprocess
import facts
import analyses as A
import lib
import lockgraph as LG

FIX = os.path.join(facts.VERIF, 'selftest', 'fixtures')


def _extract():
    src = open(os.path.join(FIX, 'src', 'lib.rs'), 'rb').read() + open(os.path.join(facts.DRIVER_DIR, 'src', 'main.rs'), 'rb').read()
    h = hashlib.sha256(src).hexdigest()[:16]
    out = os.path.join(facts.CACHE, 'fixtures', h)
    if os.path.exists(os.path.join(out, 'nvfixtures.jsonl')):
        return out
    if not os.path.exists(facts.DRIVER):
        facts.build_driver()
    shutil.rmtree(os.path.join(facts.CACHE, 'fixtures'), ignore_errors=True)
    os.makedirs(out)
    tgt = os.path.join(facts.CACHE, 'fixtures-target')
    shutil.rmtree(tgt, ignore_errors=True)
    e = dict(os.environ)
    e.update({'CARGO_NET_OFFLINE': 'true', 'LD_LIBRARY_PATH': facts.nightly_sysroot() + '/lib',
              'RUSTFLAGS': '-Zmir-opt-level=0 -Awarnings', 'RUSTC_WORKSPACE_WRAPPER': facts.DRIVER,
              'CARGO_TARGET_DIR': tgt, 'NV_FACTS_DIR': out, 'NV_CRATES': 'nvfixtures', 'NV_WORKSPACE': 'nvfixtures'})
    r = subprocess.run(['cargo', '+nightly', 'check', '--offline', '--lib'], cwd=FIX, env=e,
                       stdout=subprocess.PIPE, stderr=subprocess.STDOUT, text=True)
    if r.returncode != 0 or not os.path.exists(os.path.join(out, 'nvfixtures.jsonl')):
        raise SystemExit('nv: fixture extraction failed:\n' + r.stdout[-3000:])
    return out


def run(rep):
    """adds one instance per control to the report; a control that does not fire is a violation of the checker itself"""
    rep.rule('SELF', 'positive controls: each analysis fires on a miniature violating instance (selftest/fixtures) and is silent on its '
                     'repaired twin; a control that stops firing means the rules built on that analysis pass vacuously')
    out = _extract()
    cr = facts.Crate('nvfixtures', os.path.join(out, 'nvfixtures.jsonl'))
    F = cr.fns
    N = 'nvfixtures::'
    results = []

    def ctl(name, bad_fires, good_silent):
        ok = bad_fires and good_silent
        results.append((name, ok))
        if ok:
            rep.holds('SELF', 'selftest::' + name, 'control', 'fires on bad_*, silent on good_*')
        else:
            rep.violation('SELF', 'selftest::' + name, 'control', 'selftest/fixtures/src/lib.rs',
                          'positive control failed (fires on bad: %s, silent on good: %s): the analysis no longer detects the defect it is used for' % (bad_fires, good_silent))

    # A1/A2 write before successful persist
    def unpersisted_write(f):
        uses = A.Uses(f)
        cut = set()
        for c in A.calls_to(f, N + 'Node::persist'):
            cut |= A.call_outcome(f, c, uses).ok
        R = A.reachable(f, [0], cut_edges=cut)
        return any(w[0] in R for w in A.field_writes(f) if w[2] == N + 'State.term')
    ctl('A1/A2 cut-reachability over Ok-edges', unpersisted_write(F[N + 'Node::bad_write_before_persist']),
        not unpersisted_write(F[N + 'Node::good_persist_then_write']))

    # A3 guard live range
    def guard_live_at_apply(f):
        defs = A.Defs(f)
        gs = [g for g in A.guards(f, defs) if any(x.endswith('Node.wal') for x in g.lock_fields)]
        ap = A.calls_to(f, N + 'Node::apply')
        return any(A.live_at(A.live_positions(f, g.acq, g.kills, must=False), (ap[0].bb, len(f.bbs[ap[0].bb]['s']))) for g in gs)
    ctl('A3 guard live ranges', not guard_live_at_apply(F[N + 'Node::bad_guard_dropped_early']), guard_live_at_apply(F[N + 'Node::good_guard_held']))

    # lock-order cycle
    cg = A.CallGraph([cr])
    li = LG.LockInfo({n: f for n, f in F.items() if n.startswith(N + 'Node::')})
    cyc = LG.cycles(li.edges(cg))
    li2 = LG.LockInfo({n: f for n, f in F.items() if n.startswith(N + 'Node::') and 'bad_lock_ba' not in n})
    cyc2 = LG.cycles(li2.edges(cg))
    ctl('A3+A7 lock-order cycle through a callee', any({N + 'Node.a', N + 'Node.b'} <= set(c) for c in cyc), not cyc2)

    # RMW
    import c05
    def rmw_unlocked(f):
        defs = A.Defs(f)
        gets = A.calls_to(f, N + 'Store::get')
        puts = A.calls_to(f, N + 'Store::put')
        sl = A.backward_slice(f, [puts[0].args[2]], defs)
        flows = gets[0].dest[0] in sl.locals
        held = c05.held_at(f, defs, (gets[0].bb, len(f.bbs[gets[0].bb]['s']))) & c05.held_at(f, defs, (puts[0].bb, len(f.bbs[puts[0].bb]['s'])))
        return flows and not held
    ctl('A4 def-use slice + guard: unlocked read-modify-write', rmw_unlocked(F[N + 'Engine::bad_rmw_unlocked']), not rmw_unlocked(F[N + 'Engine::good_rmw_locked']))

    # A9 bounded allocation
    import c20
    def unbounded(f):
        defs = A.Defs(f)
        cd = A.control_deps(f)
        fb = [c for c in A.calls(f) if c20.FROM_BYTES.search(c.resolved)]
        roots = {c.dest[0] for c in fb}
        al = [c for c in A.calls(f) if c20.ALLOC.search(c.resolved) or c20.ALLOC.search(c.generic)]
        if not al or not roots:
            return None
        return c20._limit_guard(f, defs, cd, al[0].bb, roots, lambda ls, op: bool(ls.params)) is None
    ctl('A9 must-pass limit test with interval implication', unbounded(F[N + 'bad_unbounded_alloc']) is True, unbounded(F[N + 'good_bounded_alloc']) is False)

    # A7 recursion guard
    import c15
    guards = c15._guard_fns(cr)
    reach = cg.reach([N + 'P::bad_recurse', N + 'P::good_recurse'])
    sccs = cg.sccs(reach - guards)
    ctl('A7 recursion cycles modulo depth guards', any(N + 'P::bad_recurse' in c for c in sccs),
        (N + 'P::good_recurse') in guards and not any(N + 'P::good_helper' in c for c in sccs))

    # injective arithmetic
    def noninj(f):
        defs = A.Defs(f)
        bad = set()
        for c in A.calls(f):
            if re.search(r'Vec::<T, A>::push$', c.generic):
                for a in c.args[1:]:
                    if a[0] != 'k':
                        bad |= {x for x in A.backward_slice(f, [a], defs).calls if c20.NON_INJECTIVE.search(x)}
        return bool(bad)
    ctl('injective-operation table', noninj(F[N + 'bad_delta']), not noninj(F[N + 'good_delta']))

    # A5 flag idiom: no infeasible path
    f = F[N + 'good_flag_idiom']
    uses = A.Uses(f)
    ap = A.calls_to(f, N + 'Wal::append')
    okc = A.call_outcome(f, ap[0], uses).ok
    ds = lib.enum_dispatches(f, N + 'Mode')
    tgt = lib.variant_targets(cr.adts[N + 'Mode'], ds[0][1])['Immediate']
    plain = lib.success_return_reachable(f, [tgt], cut_edges=okc)
    cp = lib.success_return_reachable(f, [tgt], cut_edges=okc, cp=True)
    ctl('A5 constant propagation removes the infeasible path', bool(plain), not cp)

    # bounds-check discharge
    bad_ix, nb = lib.undischarged_bounds(F[N + 'bad_index_lookahead'])
    good_ix, ng = lib.undischarged_bounds(F[N + 'good_index_guarded'])
    ctl('bounds-check discharge (index < len on the same value)', len(bad_ix) == 1 and nb == 2, not good_ix and ng == 2)
    bad_r = lib.undischarged_ranges(F[N + 'bad_decode_flags'])[0] + lib.undischarged_bounds(F[N + 'bad_decode_flags'])[0]
    good_r = lib.undischarged_ranges(F[N + 'good_decode_flags'])[0] + lib.undischarged_bounds(F[N + 'good_decode_flags'])[0]
    ctl('range-index discharge (length lower bound from is_empty / len tests)', len(bad_r) == 2, not good_r)
    bm = lib.merge_compare_sites(F[N + 'bad_merge_unsorted'])
    gm = lib.merge_compare_sites(F[N + 'good_merge_sorted'])
    ctl('merge-shaped comparison needs sorted inputs', bool(bm) and not all(x[3] and x[4] for x in bm), bool(gm) and all(x[3] and x[4] for x in gm))
    bb_ = lib.order_assuming_calls(F[N + 'bad_bisect'])
    gb_ = lib.order_assuming_calls(F[N + 'good_bisect'])
    ctl('order-assuming call needs a sort in the function', bool(bb_) and not any(x[2] for x in bb_), bool(gb_) and all(x[2] for x in gb_))
    return results
