"""C20 Codecs — declared limits, writer/reader agreement, invertible arithmetic."""
import re
import analyses as A
import lib

FR = 'tensor_chain::tcp::framing::'
CP = 'tensor_chain::tcp::compression::'
ASSUMPTIONS = ['round-trip equality and lossy error bounds are value-level and not decided here']
FROM_BYTES = re.compile(r'::from_(be|le|ne)_bytes$')
ALLOC = re.compile(r'vec::from_elem$|Vec::<T>::with_capacity$|Vec::<T, A>::with_capacity(_in)?$|Vec::<T, A>::resize$|Vec::<T, A>::reserve(_exact)?$|'
                   r'lz4_flex::.*decompress\w*$|BytesMut::with_capacity$|vec::from_elem_in$')
NON_INJECTIVE = re.compile(r'::saturating_(sub|add|mul|pow)$|Ord>::(min|max|clamp)$|cmp::(min|max)$|::abs$|::abs_diff$|::rem_euclid$|::checked_(sub|add)$')
LOSSLESS = ['tensor_compress::delta::delta_encode', 'tensor_compress::delta::delta_decode',
            'tensor_compress::delta::varint_encode', 'tensor_compress::delta::varint_decode',
            'tensor_compress::rle::rle_encode', 'tensor_compress::rle::rle_decode']


def implies_le(op, value_lhs, taken_true):
    """does taking this edge of `lhs op rhs` imply value <= limit (value on the side given)?"""
    if not value_lhs:
        op = {'Gt': 'Lt', 'Lt': 'Gt', 'Ge': 'Le', 'Le': 'Ge', 'Eq': 'Eq', 'Ne': 'Ne'}[op]
    if taken_true:
        return op in ('Le', 'Lt', 'Eq')
    return op in ('Gt', 'Ge')


def _limit_guard(f, defs, cd, bb, value_roots, limit_pred):
    """is there a must-pass switch edge to bb that compares a value derived from value_roots with the limit
    and whose taken edge implies value <= limit?"""
    for (a, s) in A.must_pass_edges(f, bb):
        l = lib.switch_local(f, a)
        if l is None:
            continue
        d = A.single_def(defs, l)
        if not d or d[2] != 'st' or d[3][1][0] != 'bin' or d[3][1][1] not in ('Gt', 'Lt', 'Ge', 'Le'):
            continue
        rv = d[3][1]
        t = f.bbs[a]['t']
        taken_true = (s == t[3]) if all(v == '0' for v, _ in t[2]) else None
        if taken_true is None:
            continue
        for vi, li in ((2, 3), (3, 2)):
            vs = A.backward_slice(f, [rv[vi]], defs)
            ls = A.backward_slice(f, [rv[li]], defs)
            if (vs.locals & value_roots) and limit_pred(ls, rv[li]):
                if implies_le(rv[1], vi == 2, taken_true):
                    return (a, s, rv[1])
    return None


def r20a(ctx, rep, cr):
    rep.rule('R20a', 'declared limits bound allocation: in the frame readers and in decompress, every allocation or read sized by a value '
                     'decoded from the wire (from_be/le_bytes) is reachable only through a switch edge that implies value <= the declared '
                     'limit (LengthDelimitedCodec.max_frame_length, MAX_DECOMPRESSED_SIZE)')
    targets = []
    for n, f in cr.fns.items():
        if re.match(re.escape(FR) + r'LengthDelimitedCodec::read_frame\w*(::\{closure#\d+\})?$', A.parent_fn(n) + ('' if n == A.parent_fn(n) else '')) or n == CP + 'decompress':
            targets.append(f)
    bodies = []
    for n, f in cr.fns.items():
        p = A.parent_fn(n)
        if re.match(re.escape(FR) + r'LengthDelimitedCodec::read_frame\w*$', p) or p == CP + 'decompress':
            bodies.append(f)
    n_alloc = 0
    for f in bodies:
        defs = None
        fb = [c for c in A.calls(f) if FROM_BYTES.search(c.resolved)]
        if not fb:
            continue
        defs = A.Defs(f)
        cd = A.control_deps(f)
        roots = {c.dest[0] for c in fb}
        for c in A.calls(f):
            if not ALLOC.search(c.resolved) and not ALLOC.search(c.generic):
                continue
            size_args = [a for a in c.args if a[0] != 'k']
            sized = False
            for a in size_args:
                sl = A.backward_slice(f, [a], defs)
                if sl.locals & roots:
                    sized = True
            # lz4 decompress_size_prepended reads the size from the data itself
            if re.search(r'lz4_flex', c.resolved):
                sized = True
            if not sized:
                continue
            n_alloc += 1
            rep.analysed(f)

            def limit_pred(ls, op):
                if any(x.endswith('LengthDelimitedCodec.max_frame_length') for x in ls.fields):
                    return True
                vals = [A._const_val(k) for k in ls.consts] + ([A._const_val(op[1])] if op[0] == 'k' else [])
                return any(v is not None and v >= 1024 for v in vals) or any('MAX_DECOMPRESSED_SIZE' in k for k in ls.consts)
            g = _limit_guard(f, defs, cd, c.bb, roots, limit_pred)
            if g:
                rep.holds('R20a', f, 'alloc ' + c.resolved.split('::')[-1], 'behind %s test at bb%d' % (g[2], g[0]))
            else:
                rep.violation('R20a', f, 'unbounded-' + c.resolved.split('::')[-1], f.loc(c.line),
                              'an allocation / decompression sized by a length decoded from the wire is reachable without a must-pass '
                              'comparison of that length with the declared limit: a 4-byte prefix makes the peer allocate up to 4 GiB')
    rep.floor('R20a', 'wire-sized allocations in frame readers / decompress', n_alloc, 3)


def r20b(ctx, rep, cr):
    rep.rule('R20b', 'encode and decode agree: every LengthDelimitedCodec encode* / decode_payload* / read_frame* compares a length with '
                     'max_frame_length and errors on the over-limit edge; frame_flags and method_from_flags are inverse tables')
    n = 0
    for name, f in cr.fns.items():
        p = A.parent_fn(name)
        m = re.match(re.escape(FR) + r'LengthDelimitedCodec::(encode\w*|decode_payload\w*|read_frame\w*)$', p)
        if not m:
            continue
        if name != p and not f.d.get('co'):
            continue
        if name == p and any(x.startswith(p + '::{closure#0}') for x in cr.fns) and cr.fns[p + '::{closure#0}'].d.get('co'):
            continue   # async fn shell; the coroutine body is checked
        n += 1
        rep.analysed(f)
        defs = A.Defs(f)
        ok = False
        for i, b in enumerate(f.bbs):
            if b['cleanup'] or b['t'][0] != 'sw':
                continue
            l = lib.switch_local(f, i)
            d = A.single_def(defs, l) if l is not None else None
            if d and d[2] == 'st' and d[3][1][0] == 'bin' and d[3][1][1] in ('Gt', 'Lt', 'Ge', 'Le'):
                for side in (2, 3):
                    sl = A.backward_slice(f, [d[3][1][side]], defs)
                    if any(x.endswith('LengthDelimitedCodec.max_frame_length') for x in sl.fields):
                        # the over-limit edge must lead to an Err exit only
                        t = b['t']
                        ok = True
        # delegation to a sibling that checks (write_frame → encode) is not needed here: only encode/decode/read are listed
        if ok:
            rep.holds('R20b', f, 'limit compared', 'max_frame_length')
        else:
            calls_checked = any(re.search(r'LengthDelimitedCodec::(decode_payload\w*|encode\w*)$', c.resolved) for c in A.calls(f))
            if calls_checked and 'read_frame' not in name:
                rep.holds('R20b', f, 'limit compared', 'through a checked sibling')
            else:
                rep.violation('R20b', f, 'no-limit', f.loc(), '%s never compares a length with max_frame_length: encoder and decoder disagree on what is acceptable' % lib.short(p))
    rep.floor('R20b', 'LengthDelimitedCodec encode/decode/read bodies', n, 4)
    ff = rep.require_fn('R20b', cr, CP + 'frame_flags')
    mf = rep.require_fn('R20b', cr, CP + 'method_from_flags')
    enum = cr.adts.get(CP + 'CompressionMethod')
    if ff is None or mf is None or enum is None:
        return
    ds = lib.enum_dispatches(ff, CP + 'CompressionMethod')
    fwd = {}
    if ds:
        tg = lib.variant_targets(enum, ds[0][1])
        for v, tb in tg.items():
            stop = {b for vv, b in tg.items() if b != tb}
            R = A.reachable(ff, [tb], cut_blocks=stop)
            for b in sorted(R):
                for st in ff.bbs[b]['s']:
                    if st[0][0] == 0 and not st[0][1] and st[1][0] == 'use' and st[1][1][0] == 'k':
                        val = A._const_val(st[1][1][1])
                        if val is None:
                            m = re.search(r'flags::(\w+)', st[1][1][1])
                            val = {'NONE': 0, 'LZ4': 1}.get(m.group(1)) if m else None
                        fwd[v] = val
    back = {}
    for i, b in enumerate(mf.bbs):
        if b['cleanup'] or b['t'][0] != 'sw':
            continue
        t = b['t']
        for val, tb in t[2]:
            R = A.reachable(mf, [tb], cut_blocks={x for _, x in t[2] if x != tb} | {t[3]})
            for bb in sorted(R):
                for st in mf.bbs[bb]['s']:
                    if st[1][0] == 'agg' and st[1][1].startswith(CP + 'CompressionMethod::'):
                        back[int(val)] = st[1][1].split('::')[-1]
        break
    rep.notes.append('R20b tables: frame_flags=%s method_from_flags=%s' % (fwd, back))
    if not rep.floor('R20b', 'frame_flags arms', len(fwd), 2):
        return
    for v, val in sorted(fwd.items()):
        if val is not None and back.get(val) == v:
            rep.holds('R20b', ff, 'flags ' + v, '%s ↔ %s' % (v, val))
        else:
            rep.violation('R20b', ff, 'flags-' + v, ff.loc(), 'CompressionMethod::%s is written as flag %s but flag %s reads back as %s' % (v, val, val, back.get(val)))


def r20c(ctx, rep):
    rep.rule('R20c', 'lossless codecs use invertible arithmetic: in delta / varint / rle encode and decode, no value that is pushed to the '
                     'output or returned (in the function or in a closure it passes to an iterator adaptor) has saturating_*, min/max/clamp, abs or checked_* (discarding None) on its def-use path — those operations '
                     'map distinct inputs to one output, so the decoder cannot invert them')
    cr = ctx.crate('tensor_compress')
    n = 0
    for name in LOSSLESS:
        f = cr.fns.get(name) or next((g for k, g in cr.fns.items() if re.sub(r'::<[^>]*>', '', k) == name), None)
        if f is None:
            rep.violation('R20c', 'anchor-missing', name, '-', 'anchor-missing: %s not found' % name)
            continue
        rep.analysed(f)
        # outputs: what is pushed / extended into a Vec, and the returned value itself, in the function and in its closures
        # (an iterator-chain body `ids.windows(2).map(|w| ..).collect()` keeps its arithmetic in the closure)
        bad = set()
        n_out = 0
        for g in [f] + [h for k, h in sorted(cr.fns.items()) if A.parent_fn(k) == f.name and k != f.name]:
            gd = A.Defs(g)
            outs = [0]
            for c in A.calls(g):
                if re.search(r'Vec::<T, A>::push$|Vec::<T, A>::extend\w*$', c.generic):
                    outs += [a for a in c.args[1:] if a[0] != 'k']
            n_out += len(outs)
            sl = A.backward_slice(g, outs, gd)
            bad |= {x for x in sl.calls if NON_INJECTIVE.search(x)}
        n += 1
        if bad:
            rep.violation('R20c', f, 'non-injective', f.loc(),
                          'the encoded/decoded values pass through %s: distinct inputs collapse to one output (e.g. an unsorted or duplicate '
                          'id list), so decode(encode(x)) != x' % ', '.join(sorted(lib.short(x) for x in bad)))
        else:
            rep.holds('R20c', f, 'arithmetic', 'no saturating/clamping operation on the payload path')
    rep.floor('R20c', 'lossless codec functions', n, 6)


def _val_sig(f, defs, op, depth=0):
    """structural identity of a usize value: constants, len() of a named buffer, sums; otherwise the defining local.
    Two operands with equal signatures hold the same value as long as the buffers are not modified in between."""
    if op[0] == 'k':
        return ('k', A._const_val(op[1]) if A._const_val(op[1]) is not None else op[1])
    l, proj = op[1][0], op[1][1]
    if depth > 10:
        return ('l', l)
    d = A.single_def(defs, l)
    if proj:
        # (_t.0) of an overflow-checked add
        if d and d[2] == 'st' and d[3][1][0] == 'bin' and d[3][1][1].endswith('WithOverflow') and proj[0] in ('#0', '0', '.0'):
            rv = d[3][1]
            return (rv[1].replace('WithOverflow', ''),) + tuple(sorted([_val_sig(f, defs, rv[2], depth + 1), _val_sig(f, defs, rv[3], depth + 1)], key=repr))
        return ('p', l, tuple(map(str, proj)))
    if not d:
        return ('l', l)
    if d[2] == 'st':
        rv = d[3][1]
        if rv[0] == 'use':
            return _val_sig(f, defs, rv[1], depth + 1)
        if rv[0] == 'bin' and rv[1] in ('Add', 'Sub', 'Mul'):
            a, b = _val_sig(f, defs, rv[2], depth + 1), _val_sig(f, defs, rv[3], depth + 1)
            return (rv[1],) + (tuple(sorted([a, b], key=repr)) if rv[1] != 'Sub' else (a, b))
        if rv[0] == 'cast':
            ops = A.rvalue_operands(rv)
            if ops:
                return _val_sig(f, defs, ops[0], depth + 1)
        return ('l', l)
    if d[2] == 'call':
        c = d[3]
        if re.search(r'::len$', c.resolved) and c.args and c.args[0][0] != 'k':
            # receiver: a reference to a named buffer
            base = c.args[0][1][0]
            bd = A.single_def(defs, base)
            if bd and bd[2] == 'st' and bd[3][1][0] == 'ref':
                pl = bd[3][1][1]
                return ('len', pl[0], tuple(map(str, pl[1])))
            return ('len', base, ())
    return ('l', l)


def r20d(ctx, rep, cr):
    rep.rule('R20d', 'the encoder bounds what it announces: in every LengthDelimitedCodec::encode* the value passed to length_prefix (the '
                     'length the reader will test against its limit) is itself — the same value: same local up to copies, or the same len()/sum expression over the same buffer — compared with '
                     'max_frame_length on a must-pass edge that implies value <= limit. Bounding a different quantity (the serialized size '
                     'before the flags byte is added) lets the encoder emit a frame that every reader rejects')
    n = 0
    for name, f in sorted(cr.fns.items()):
        if not re.match(re.escape(FR) + r'LengthDelimitedCodec::encode\w*$', name):
            continue
        lp = A.calls_to(f, ('re', r'framing::length_prefix$'))
        if not lp:
            continue
        rep.analysed(f)
        defs = A.Defs(f)
        for k, c in enumerate(lp):
            n += 1
            # the announced length is whichever argument is not the limit (argument order is the helper's business): every
            # non-constant argument is tried as the value that must have been tested on the `<= limit` side
            wants = [_val_sig(f, defs, a_) for a_ in c.args if a_[0] != 'k']
            found = None
            for (a, s_) in A.must_pass_edges(f, c.bb):
                l = lib.switch_local(f, a)
                d = A.single_def(defs, l) if l is not None else None
                if not d or d[2] != 'st' or d[3][1][0] != 'bin' or d[3][1][1] not in ('Gt', 'Lt', 'Ge', 'Le'):
                    continue
                rv = d[3][1]
                t = f.bbs[a]['t']
                if not all(v == '0' for v, _ in t[2]):
                    continue
                taken_true = (s_ == t[3])
                for vi, li in ((2, 3), (3, 2)):
                    ls = A.backward_slice(f, [rv[li]], defs)
                    if not any(x.endswith('LengthDelimitedCodec.max_frame_length') for x in ls.fields):
                        continue
                    if _val_sig(f, defs, rv[vi]) in wants and implies_le(rv[1], vi == 2, taken_true):
                        found = (a, rv[1])
            if found:
                rep.holds('R20d', f, 'announced length#%d' % k, 'the announced value itself is tested (%s at bb%d)' % (found[1], found[0]))
            else:
                rep.violation('R20d', f, 'announced-length-unbounded', f.loc(c.line),
                              'the length written into the frame header is not the value that was compared with max_frame_length: at the '
                              'boundary (payload + flags byte = limit + 1) the encoder emits a frame that read_frame rejects as too large')
    rep.floor('R20d', 'length_prefix calls in encoders', n, 2)


DECODER = re.compile(r'(decode|decompress|read_frame|from_bytes|from_raw_bytes|method_from_flags)')


def r20e(ctx, rep, cr):
    rep.rule('R20e', 'decoders reject short input instead of panicking: in every decode / decompress / read_frame function of '
                     'tensor_chain::tcp and tensor_compress, each bounds-checked index and each range index / split_at on a slice is '
                     'discharged by a must-pass test on the same buffer (is_empty() false, len compared with a constant, index < len, '
                     'bound <= len) — an index that is not is a panic on a truncated or corrupted frame')
    n = 0
    for crate, pat in ((cr, r'::tcp::'), (ctx.crate('tensor_compress'), r'.')):
        for name, f in sorted(crate.fns.items()):
            if not re.search(pat, name) or not DECODER.search(A.parent_fn(name).split('::')[-1]):
                continue
            b1, k1 = lib.undischarged_bounds(f)
            b2, k2 = lib.undischarged_ranges(f)
            if k1 + k2:
                rep.analysed(f)
            n += k1 + k2
            for j, (bb, line, why) in enumerate(b1 + b2):
                rep.violation('R20e', f, 'unchecked-index', f.loc(line),
                              'a decoder indexes its input with no dominating length test (%s): a frame cut short at this point panics the '
                              'reader instead of returning an error' % why)
            if (k1 + k2) and not (b1 or b2):
                rep.holds('R20e', f, 'input indexing', '%d site(s) discharged' % (k1 + k2))
    rep.floor('R20e', 'index sites in decoders', n, 5)


def r20f(ctx, rep, cr):
    rep.rule('R20f', 'the frame decoder refuses nothing the encoder emitted: a size policy on a constant applied anywhere on the decode side of '
                     'tensor_chain::tcp (decode_payload*, read_frame*, decompress — e.g. MAX_DECOMPRESSED_SIZE on the claimed decompressed '
                     'size) has a counterpart on the same constant on the encode side (encode*, compress). The encoder bounds the frame it '
                     'emits; if only the decoder bounds the decompressed size, a large message that compresses well is sent and every '
                     'receiver rejects it')
    readers = [f for n, f in cr.fns.items() if '::tcp::' in n and re.search(r'(decode_payload|read_frame|decompress)', A.parent_fn(n).split('::')[-1])]
    writers = [f for n, f in cr.fns.items() if '::tcp::' in n and re.search(r'^(encode|compress|write_frame)', A.parent_fn(n).split('::')[-1])]
    bad, n = lib.reader_only_policies(readers, writers)
    for k, (g, line, op, cs) in enumerate(bad):
        rep.analysed(g)
        rep.violation('R20f', g, 'decoder-only-limit', g.loc(line),
                      'the decoder rejects input by comparing a size with %s and no encoder applies that bound: encode(m) succeeds for a '
                      'message that decode then refuses' % ', '.join(cs))
    if not bad:
        rep.holds('R20f', 'tensor_chain::tcp', 'size policies', '%d decoder-side policy comparison(s), all matched by the encoders' % n)
    rep.floor('R20f', 'decoder-side functions', len(readers), 4)
    rep.floor('R20f', 'decoder-side size policies', n, 1)


def r20g(ctx, rep):
    rep.rule('R20g', 'the sparse encoding drops only what the decoder puts back: decompress fills every position that is not listed with 0.0, so '
                     'in tensor_compress::format::compress_dense_as_sparse (the lossless dense→sparse encoder) every test on a '
                     'component, in the function or in a closure it passes on, is ==/!= against the constant 0.0 — no magnitude test (abs, <, >) '
                     'and no tolerance constant. "Effectively zero" is the right test for choosing a format (should_use_sparse*), not for '
                     'choosing what to keep: a component of 5e-7 would come back as 0')
    cr = ctx.crate('tensor_compress')
    f = rep.require_fn('R20g', cr, 'tensor_compress::format::compress_dense_as_sparse')
    if f is None:
        return
    bodies = A.with_closures(cr.fns, f.name)
    n = 0
    CMP = ('Eq', 'Ne', 'Lt', 'Le', 'Gt', 'Ge')

    def is_float(h, op):
        if op[0] == 'k':
            return bool(re.search(r'f32|f64', str(op[1])))
        return not op[1][1] and h.locals[op[1][0]] in ('f32', 'f64')

    def zero_const(op):
        return op[0] == 'k' and re.search(r'(^|[^0-9.])-?0(\.0*)?(e[+-]?0+)?_?f(32|64)', str(op[1])) is not None

    for h in bodies:
        bad = []
        cmps = 0
        for b_ in h.bbs:
            if b_['cleanup']:
                continue
            for st in b_['s']:
                rv = st[1]
                if rv[0] == 'bin' and rv[1] in CMP and (is_float(h, rv[2]) or is_float(h, rv[3])):
                    cmps += 1
                    if rv[1] not in ('Eq', 'Ne'):
                        bad.append('%s on a component' % rv[1])
                    elif not (zero_const(rv[2]) or zero_const(rv[3])):
                        bad.append('comparison with something other than the constant 0.0')
            t = b_['t']
            if t[0] == 'call' and re.search(r'f(32|64)>?::(abs|signum|is_normal|is_subnormal|clamp|max|min)$', t[2]):
                bad.append(lib.short(t[2]))
        if not cmps and not bad:
            continue
        n += cmps
        rep.analysed(h)
        if bad:
            rep.violation('R20g', f, 'lossy-zero-test', h.loc(),
                          'the sparse encoder decides which components to keep with %s: components that are not 0.0 are dropped and decode '
                          'as 0.0' % ', '.join(sorted(set(bad))))
        else:
            rep.holds('R20g', f, 'component test in %s' % h.name.split('::')[-1], 'exact comparison with 0.0')
    rep.floor('R20g', 'component filters in the sparse encoder', n, 1)


def r20h(ctx, rep, cr):
    rep.rule('R20h', 'reader and writer bound the same quantity: the writer compares the length it announces with max_frame_length (R20d); '
                     'in every read_frame* body the value compared with max_frame_length on the way to the payload allocation is the '
                     'decoded prefix itself — from_be_bytes up to casts, with no arithmetic (+ 4 for the prefix, a saturating add) on it. '
                     'A reader that counts something the writer does not count refuses frames at the top of the range that its own '
                     'encoder emits')
    n = 0
    ARITH = ('Add', 'Sub', 'Mul', 'AddWithOverflow', 'SubWithOverflow', 'MulWithOverflow', 'AddUnchecked', 'SubUnchecked', 'Shl', 'Shr', 'Div')
    for name, f in sorted(cr.fns.items()):
        p = A.parent_fn(name)
        if not re.match(re.escape(FR) + r'LengthDelimitedCodec::read_frame\w*$', p):
            continue
        fb = [c for c in A.calls(f) if FROM_BYTES.search(c.resolved)]
        if not fb:
            continue
        defs = A.Defs(f)
        roots = {c.dest[0] for c in fb}
        for i, b in enumerate(f.bbs):
            if b['cleanup']:
                continue
            for st in b['s']:
                rv = st[1]
                if rv[0] != 'bin' or rv[1] not in ('Gt', 'Lt', 'Ge', 'Le'):
                    continue
                for vi, li in ((2, 3), (3, 2)):
                    if rv[li][0] == 'k' or rv[vi][0] == 'k':
                        continue
                    ls = A.backward_slice(f, [rv[li]], defs)
                    if not any(x.endswith('LengthDelimitedCodec.max_frame_length') for x in ls.fields):
                        continue
                    vs = A.backward_slice(f, [rv[vi]], defs)
                    if not (vs.locals & roots):
                        continue
                    n += 1
                    rep.analysed(f)
                    ops = {x[0] if isinstance(x, (list, tuple)) else x for x in vs.binops}
                    ar = sorted(x for x in ops if x in ARITH) + sorted(lib.short(x) for x in vs.calls
                                                                       if re.search(r'::(saturating|checked|wrapping|overflowing)_(add|sub|mul)$', x))
                    if ar:
                        rep.violation('R20h', f, 'reader-bounds-another-quantity', f.loc(st[2]),
                                      'the reader compares the decoded length with the limit only after %s: it bounds a different quantity '
                                      'than the encoder, and refuses frames its own encoder produces' % ', '.join(ar))
                    else:
                        rep.holds('R20h', f, 'limit test@%d' % st[2], 'the decoded prefix itself is compared')
    rep.floor('R20h', 'limit tests on a decoded length in frame readers', n, 2)


def r20i(ctx, rep):
    rep.rule('R20i', 'a count read from the input does not size an allocation: in the streaming readers of tensor_compress (streaming.rs, '
                     'streaming_tt.rs) no Vec::with_capacity / vec![_; n] / reserve is sized by a value that comes from the reader\'s trailer or '
                     'header (entry_count, vector_count, …) unless it passed a min / clamp or a must-pass comparison with a bound. The '
                     'trailer is untrusted: one flipped high bit turns a well-formed file into a `capacity overflow` panic or an '
                     'allocation failure before a single entry is read, where the decoder used to return Err')
    cr = ctx.crate('tensor_compress')
    n = 0
    ALLOCS = re.compile(r'Vec::<T(, A)?>::(with_capacity|reserve|reserve_exact|resize)$|vec::from_elem')
    for name, f in sorted(cr.fns.items()):
        if not (f.file.endswith('streaming.rs') or f.file.endswith('streaming_tt.rs')):
            continue
        defs = None
        for c in A.calls(f):
            if not (ALLOCS.search(c.resolved) or ALLOCS.search(c.generic)):
                continue
            defs = defs or A.Defs(f)
            for a in c.args:
                if a[0] == 'k':
                    continue
                sl = A.backward_slice(f, [a], defs)
                src = sorted(lib.short(x) for x in sl.calls if re.search(r'::(entry_count|vector_count|count|len_hint)$', x) and 'Reader' in x) + \
                    sorted(x.split('::')[-1] for x in sl.fields if re.search(r'(Trailer|Header)\.\w*(count|len|size)\w*$', x))
                if not src:
                    continue
                n += 1
                rep.analysed(f)
                bounded = any(re.search(r'::(min|clamp)$', x) for x in sl.calls)
                if not bounded:
                    for (a_, s_) in A.must_pass_edges(f, c.bb):
                        l = lib.switch_local(f, a_)
                        d = A.single_def(defs, l) if l is not None else None
                        if d and d[2] == 'st' and d[3][1][0] == 'bin' and d[3][1][1] in ('Gt', 'Lt', 'Ge', 'Le'):
                            if any((A.backward_slice(f, [o], defs).locals & sl.locals) for o in d[3][1][2:4] if o[0] != 'k'):
                                bounded = True
                if bounded:
                    rep.holds('R20i', f, 'alloc@%d' % c.line, 'the count is bounded first')
                else:
                    rep.violation('R20i', f, 'alloc-sized-by-input-count', f.loc(c.line),
                                  '%s is sized by %s, a count taken from the input with no bound: a damaged trailer makes the reader panic or '
                                  'abort on allocation instead of returning an error' % (c.resolved.split('::')[-1], ', '.join(src)))
    rep.notes.append('R20i: allocations sized by an input count in the streaming readers = %d (none on the development tree: the readers collect)' % n)


def run(ctx, rep):
    cr = ctx.crate('tensor_chain')
    r20a(ctx, rep, cr)
    r20b(ctx, rep, cr)
    r20c(ctx, rep)
    r20d(ctx, rep, cr)
    r20e(ctx, rep, cr)
    r20f(ctx, rep, cr)
    r20g(ctx, rep)
    r20h(ctx, rep, cr)
    r20i(ctx, rep)
