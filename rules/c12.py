"""C12 2PC key locks — structural part."""
import re
import analyses as A
import lib
import witness
import lockgraph as LG
import tpc_rules as T

LM = T.DT + 'LockManager::'
LOCKS = T.DT + 'LockManager.locks'
TXLOCKS = T.DT + 'LockManager.tx_locks'
ASSUMPTIONS = ['exactness of cycle detection on arbitrary wait-for graphs is not decided here',
               'lock identity = the struct field holding the RwLock/Mutex; distinct instances of one field are not distinguished']


def _guard_for(f, defs, field):
    return [g for g in A.guards(f, defs) if LG.lock_id(g) == field]


def _map_calls(f, defs, gs, names):
    """HashMap calls (get/insert/remove/…) whose receiver derefs one of the guards gs."""
    out = []
    glocals = {g.local for g in gs}
    for c in A.calls_to(f, ('re', r'HashMap::<K, V, S(, A)?>::(%s)$' % names)):
        a = c.arg_local(0)
        if a is None:
            continue
        _, root = A.origin_fields(f, a, defs, stop_at=glocals)
        if root in glocals:
            out.append(c)
    return out


def r12a(ctx, rep, cr):
    rep.rule('R12a', 'try_lock / try_lock_with_wait_tracking: one write acquisition of LockManager.locks then of .tx_locks; every conflict '
                     'read (get) and every insert on the lock table happens while both guards are live on all paths; no conflict read '
                     'is reachable after the first insert (check-all-then-acquire-all); the failure exit cannot reach an insert. '
                     'Every function that takes both tables takes locks before tx_locks')
    for name in ('try_lock', 'try_lock_with_wait_tracking'):
        f = rep.require_fn('R12a', cr, LM + name)
        if f is None:
            continue
        defs = A.Defs(f)
        g1 = [g for g in _guard_for(f, defs, LOCKS) if g.acq_calls]
        g2 = [g for g in _guard_for(f, defs, TXLOCKS) if g.acq_calls]
        if len(g1) != 1 or len(g2) != 1 or A.guard_kind(g1[0].ty) != 'RwLockWriteGuard' or A.guard_kind(g2[0].ty) != 'RwLockWriteGuard':
            rep.violation('R12a', f, 'guards', f.loc(), 'expected exactly one write guard on locks and one on tx_locks, found %d / %d' % (len(g1), len(g2)))
            continue
        # guards moved into drop(): follow the moved temporaries as the same guard
        allg = _guard_for(f, defs, LOCKS) + _guard_for(f, defs, TXLOCKS)
        gets = _map_calls(f, defs, _guard_for(f, defs, LOCKS), 'get|contains_key|get_mut')
        ins = _map_calls(f, defs, _guard_for(f, defs, LOCKS), 'insert')
        if not gets or not ins:
            rep.violation('R12a', f, 'shape', f.loc(), 'anchor-missing: no conflict read (%d) / insert (%d) on the lock table' % (len(gets), len(ins)))
            continue
        lv1 = A.live_positions(f, g1[0].acq, g1[0].kills, must=True)
        lv2 = A.live_positions(f, g2[0].acq, g2[0].kills, must=True)
        bad = [c for c in gets + ins if not (A.live_at(lv1, (c.bb, len(f.bbs[c.bb]['s']))) and A.live_at(lv2, (c.bb, len(f.bbs[c.bb]['s']))))]
        if bad:
            rep.violation('R12a', f, 'outside-critical-section', f.loc(bad[0].line),
                          'a lock-table %s happens on a path where the locks/tx_locks write guards are not both held: check and acquire are not one critical section' % bad[0].generic.split('::')[-1])
        else:
            rep.holds('R12a', f, 'critical section', '%d reads, %d inserts under both guards' % (len(gets), len(ins)))
        R = A.reachable(f, [c.target for c in ins if c.target is not None and c.target >= 0])
        late = [c for c in gets if c.bb in R]
        if late:
            rep.violation('R12a', f, 'check-after-acquire', f.loc(late[0].line), 'a conflict read is reachable after an insert: granting is not all-or-nothing over the key set')
        else:
            rep.holds('R12a', f, 'check-all-then-acquire-all', '')
        fb = lib.failure_blocks(f)
        # failure exit = the block that builds Err; inserts must not be reachable from the conflict decision that leads there
        if not fb:
            rep.violation('R12a', f, 'conflict-exit', f.loc(), 'anchor-missing: no Err exit')
        else:
            ok = True
            for b in fb:
                Rb = A.reachable(f, [b])
                if any(c.bb in Rb for c in ins):
                    ok = False
            if ok:
                rep.holds('R12a', f, 'conflict exit', 'Err exit reaches no insert')
            else:
                rep.violation('R12a', f, 'insert-after-conflict', f.loc(), 'an insert is reachable from the conflict (Err) exit')
        # acquisition order
        if not A.live_at(A.live_positions(f, g1[0].acq, g1[0].kills, must=True), g2[0].acq_calls[0]):
            rep.violation('R12a', f, 'order', f.loc(), 'tx_locks is acquired while locks is not held')
    # same order everywhere
    n = 0
    for f in cr.fns.values():
        if not (f.file.endswith('distributed_tx.rs')):
            continue
        if not any(A.is_guard_type(t) for t in f.locals):
            continue
        defs = A.Defs(f)
        a = [g for g in _guard_for(f, defs, LOCKS) if g.acq_calls]
        b = [g for g in _guard_for(f, defs, TXLOCKS) if g.acq_calls]
        if not a or not b:
            continue
        n += 1
        rep.analysed(f)
        inverted = False
        for gb in b:
            lvb = A.live_positions(f, gb.acq, gb.kills, must=False)
            for ga in a:
                for pos in ga.acq_calls:
                    if A.live_at(lvb, pos):
                        inverted = True
        if inverted:
            rep.violation('R12a', f, 'order-inverted', f.loc(), 'LockManager.locks is acquired while tx_locks is held (every other method takes locks first)')
        else:
            rep.holds('R12a', f, 'order locks→tx_locks', '')
    rep.floor('R12a', 'functions taking both lock tables', n, 4)


def _releases_vote_handles(cr, f, defs, need_votes_field):
    """f calls release_by_handle_with_wait_cleanup with a handle read from PrepareVote.lock_handle (of the votes of a transaction)"""
    for c in A.calls_to(f, LM + 'release_by_handle_with_wait_cleanup'):
        if len(c.args) < 2:
            continue
        sl = A.backward_slice(f, [c.args[1]], defs)
        handle = any(x.endswith('PrepareVote.lock_handle') or x.endswith('.lock_handle') for x in sl.fields)
        if not handle:
            # the handles may be collected first through a closure (votes.values().filter_map(|v| … lock_handle …))
            for h in A.with_closures(cr.fns, f.name):
                if h.name != f.name and any(x.endswith('.lock_handle') for x in A.field_reads(h)) and \
                        any(st[1][0] == 'agg' and st[1][1].endswith(h.name) and st[0][0] in sl.locals for b in f.bbs for st in b['s']):
                    handle = True
        if handle and (not need_votes_field or any(x.endswith('DistributedTransaction.votes') for x in sl.fields)):
            return True
    return False


def r12b(ctx, rep, cr):
    rep.rule('R12b', 'every coordinator function that removes a transaction from pending releases, by the handle of each Yes vote of '
                     'that transaction, through release_by_handle_with_wait_cleanup (which also removes it from the wait-for graph), itself or in a helper it hands '
                     'the transaction to; '
                     'every LockManager function that removes from the lock table also updates tx_locks while both guards are held')
    n = 0
    for f in T.coordinator_fns(cr):
        defs = A.Defs(f)
        rems = T.pending_removes(f, defs)
        if not rems:
            continue
        n += 1
        rep.analysed(f)
        rel = A.calls_to(f, LM + 'release_by_handle_with_wait_cleanup')
        ok = _releases_vote_handles(cr, f, defs, need_votes_field=True)
        if not ok:
            # the release loop may live in a private helper that is handed the transaction / its votes
            for c in A.calls(f):
                h = cr.fns.get(c.resolved)
                if h is None or not c.resolved.startswith(T.DT) or h is f:
                    continue
                if _releases_vote_handles(cr, h, A.Defs(h), need_votes_field=False):
                    sl = A.backward_slice(f, [a for a in c.args if a[0] != 'k'], defs)
                    typed = any(a[0] != 'k' and 'DistributedTransaction' in f.locals[a[1][0]] for a in c.args)
                    if typed or any(x.endswith('DistributedTransaction.votes') for x in sl.fields) or any(r_.dest[0] in sl.locals for r_ in rems):
                        ok = True
                        rel = rel + [c]
        if ok:
            rep.holds('R12b', f, 'release per Yes vote', '%d release call(s) fed by votes[..].lock_handle' % len(rel))
        else:
            rep.violation('R12b', f, 'no-release', f.loc(rems[0].line),
                          'the transaction is removed from pending but its Yes-vote lock handles are not released with wait-graph cleanup: locks stay behind until they expire')
    rep.floor('R12b', 'coordinator functions removing from pending', n, 4)
    m = 0
    for f in cr.fns.values():
        if not f.name.startswith(T.DT) or not f.file.endswith('distributed_tx.rs'):
            continue
        if not any(A.is_guard_type(t) for t in f.locals):
            continue
        defs = A.Defs(f)
        gl = _guard_for(f, defs, LOCKS)
        gt = _guard_for(f, defs, TXLOCKS)
        if not gl:
            continue
        rem = _map_calls(f, defs, gl, 'remove')
        if not rem:
            continue
        m += 1
        upd = _map_calls(f, defs, gt, 'get_mut|remove|entry|retain') if gt else []
        if not upd:
            rep.violation('R12b', f, 'tx_locks-not-updated', f.loc(rem[0].line), 'keys are removed from the lock table but the transaction→keys index is not updated')
            continue
        glw = [g for g in gl if g.acq_calls]
        gtw = [g for g in gt if g.acq_calls]
        lv1 = A.live_positions(f, glw[0].acq, glw[0].kills, must=True)
        lv2 = A.live_positions(f, gtw[0].acq, gtw[0].kills, must=True)
        bad = [c for c in rem + upd if not (A.live_at(lv1, (c.bb, len(f.bbs[c.bb]['s']))) and A.live_at(lv2, (c.bb, len(f.bbs[c.bb]['s']))))]
        if bad:
            rep.violation('R12b', f, 'split-critical-section', f.loc(bad[0].line), 'lock table and transaction→keys index are updated without holding both guards')
        else:
            rep.holds('R12b', f, 'tables updated together', '%d removes, %d index updates' % (len(rem), len(upd)))
    rep.floor('R12b', 'LockManager removal functions', m, 3)


def r12d(ctx, rep, cr):
    rep.rule('R12d', 'the lock-acquisition graph over the coordinator / lock manager / wait-for graph / participant locks '
                     '(edge L1→L2 when L2 is acquired, directly or through a callee, while a guard of L1 may be live) is acyclic: '
                     'a release path that can deadlock never releases')
    fns = {n: f for n, f in cr.fns.items() if f.file.endswith('distributed_tx.rs') or f.file.endswith('deadlock.rs')}
    li = LG.LockInfo(fns)
    cg = ctx.callgraph(['tensor_chain'])
    edges = li.edges(cg)
    locks = set()
    for (a, b) in edges:
        locks |= {a, b}
    rep.floor('R12d', 'locks in the acquisition graph', len(locks), 5)
    rep.floor('R12d', 'acquisition-order edges', len(edges), 6)
    for f in fns.values():
        if f.name in li.guards:
            rep.analysed(f)
    cyc = LG.cycles(edges)
    incyc = set()
    for comp in cyc:
        incyc |= set(comp)
        wit = []
        for (a, b), v in sorted(edges.items()):
            if a in comp and b in comp and a != b:
                wit.append('%s→%s in %s' % (a.split('::')[-1], b.split('::')[-1], ', '.join(sorted({lib.short(x[0]).split('::')[-1] for x in v})[:6])))
        rep.violation('R12d', 'lock-order', 'cycle:' + '+'.join(x.split('::')[-1] for x in comp), 'tensor_chain/src/distributed_tx.rs',
                      'lock-order cycle: ' + '; '.join(wit))
    for (a, b), v in sorted(edges.items()):
        if a != b and not (a in incyc and b in incyc):
            rep.holds('R12d', v[0][0], '%s→%s' % (a.split('::')[-1], b.split('::')[-1]), 'no reverse path')


def r12c(ctx, rep, cr):
    rep.rule('R12c', 'DeadlockDetector::select_victim returns only values drawn from its `cycle` argument: every definition of the return '
                     'value, in the function and in the closures it passes on, is an element of `cycle`, the result of an element '
                     'selector (iter/max_by_key/min_by_key/copied/unwrap_or/map_or_else) over `cycle`, or the documented 0 under '
                     'cycle.is_empty()')
    f = rep.require_fn('R12c', cr, 'tensor_chain::deadlock::DeadlockDetector::select_victim')
    if f is None:
        return
    bodies = A.with_closures(cr.fns, f.name)
    SELECT = re.compile(r'(Iterator::(max_by_key|min_by_key|max_by|min_by|max|min|copied|cloned|next|last)|Option::<&?T>::(unwrap_or|unwrap_or_else|map_or_else|copied|cloned|unwrap|or)|slice::<impl \[T\]>::(iter|first|last|get)|core::slice::<impl \[T\]>::(iter|first|last)|IntoIterator>::into_iter|Iterator>::(max_by_key|min_by_key|copied|next))$')
    n = 0
    # closures handed to key/predicate positions return sort keys, not victims
    keyfns = set()
    for h in bodies:
        hd = A.Uses(h)
        for b in h.bbs:
            for st in b['s']:
                if st[1][0] == 'agg' and st[1][1].startswith('closure:') and not st[0][1]:
                    for u in hd.uses.get(st[0][0], []):
                        if u[0] == 'call' and re.search(r'::(max_by_key|min_by_key|max_by|min_by|filter|any|all|position|find)$', u[3].generic):
                            keyfns.add(st[1][1].split(':', 1)[1])
    for h in bodies:
        if h.locals[0] not in ('u64',) or h.name in keyfns:
            continue
        n += 1
        defs = A.Defs(h)
        # which local is `cycle` (param in the fn; captured upvar in closures)
        cyc = None
        for nm, pl in h.d['names'].items():
            if nm == 'cycle':
                cyc = pl
        bad = _provenance(h, defs, 0, cyc, SELECT, set(), cr, f.name)
        if bad:
            rep.violation('R12c', h, 'victim-source', h.loc(bad[1]),
                          'select_victim can return a value that is not drawn from the cycle: %s' % bad[0])
        else:
            rep.holds('R12c', h, 'return value', 'every definition is an element of / selector over `cycle`')
    rep.floor('R12c', 'u64-returning bodies of select_victim', n, 3)


def _provenance(h, defs, local, cyc, SELECT, seen, cr, root):
    """None if every def of `local` derives from `cycle`; else (reason, line)."""
    if local in seen:
        return None
    seen.add(local)
    ds = [d for d in defs.defs.get(local, []) if d[2] != 'callmut']
    if not ds:
        if cyc is not None and local == cyc[0]:
            return None
        if 1 <= local <= h.argc:
            # closure argument (an element handed in by the selector) or the captured environment
            return None
        return ('local _%d has no definition' % local, h.line)
    for (bb, idx, k, p) in ds:
        if k == 'st':
            rv = p[1]
            line = p[2]
            if rv[0] == 'use':
                op = rv[1]
                if op[0] == 'k':
                    if op[1] in ('0_u64',):
                        continue   # documented: empty cycle
                    return ('constant %s' % op[1], line)
                pl = op[1]
                if cyc is not None and pl[0] == cyc[0] and pl[1][:len(cyc[1])] == cyc[1]:
                    continue
                r = _provenance(h, defs, pl[0], cyc, SELECT, seen, cr, root)
                if r:
                    return r
            elif rv[0] == 'ref':
                pl = rv[1]
                if cyc is not None and pl[0] == cyc[0]:
                    continue
                r = _provenance(h, defs, pl[0], cyc, SELECT, seen, cr, root)
                if r:
                    return r
            elif rv[0] == 'agg' and rv[1].startswith('closure:'):
                continue
            elif rv[0] in ('cast',):
                r = _provenance(h, defs, rv[1][1][0], cyc, SELECT, seen, cr, root) if rv[1][0] != 'k' else ('cast of constant', line)
                if r:
                    return r
            else:
                return ('computed by %s' % rv[0], line)
        else:
            c = p
            if SELECT.search(c.generic) or SELECT.search(c.resolved) or re.search(r'Deref>::deref$|Index<.*>>::index$|ops::Index', c.generic):
                # receiver (and value-carrying fallback arguments) must derive from cycle; closures are checked as bodies
                for i, a in enumerate(c.args):
                    if i == 0 and re.search(r'::(map_or_else|and_then|map)$', c.generic):
                        continue  # the value is produced by the closures (checked as bodies of their own)
                    if a[0] == 'k':
                        if i == 0:
                            return ('selector over a constant', c.line)
                        continue
                    ty = h.locals[a[1][0]]
                    if 'closure' in ty or '{closure' in ty:
                        continue
                    if i > 0 and not (ty in ('u64', '&u64') or 'Option<' in ty):
                        continue
                    if cyc is not None and a[1][0] == cyc[0]:
                        continue
                    r = _provenance(h, defs, a[1][0], cyc, SELECT, seen, cr, root)
                    if r:
                        return r
            else:
                return ('result of %s' % c.resolved, c.line)
    return None


def r12e(ctx, rep, cr):
    rep.rule('R12e', 'only the holder releases: every removal from LockManager.locks is reachable only through the true edge of '
                     'KeyLock.tx_id == <the releasing transaction>, or removes keys selected from the table itself in the same critical '
                     'section (by handle, by expiry, orphan sweep). Keys taken from the per-transaction list tx_locks can be stale: try_lock '
                     'lets a transaction take over an expired lock without pruning the old holder\'s list')
    fns = {n: f for n, f in cr.fns.items() if n.startswith('tensor_chain::distributed_tx::')}
    n = lib.holder_only_release(rep, 'R12e', fns, 'LockManager.locks', 'KeyLock.tx_id', '2PC key lock')
    rep.floor('R12e', 'removals from LockManager.locks', n, 4)


def r12f(ctx, rep, cr):
    rep.rule('R12f', 'wait edges are recorded in the critical section that found the conflict: in every LockManager function, each '
                     'WaitForGraph::add_wait call runs while the guard on LockManager.locks taken for the conflict check is still live on '
                     'all paths. Released first, a holder can finish (and be removed from the graph) between the check and the add; the '
                     'edge then points at a transaction that holds nothing and no release path removes it again')
    import c05
    n = 0
    for name, f in sorted(cr.fns.items()):
        if not name.startswith('tensor_chain::distributed_tx::LockManager::'):
            continue
        adds = A.calls_to(f, ('re', r'deadlock::WaitForGraph::add_wait$'))
        if not adds:
            continue
        rep.analysed(f)
        defs = A.Defs(f)
        for k, c in enumerate(adds):
            n += 1
            held = c05.held_at(f, defs, (c.bb, len(f.bbs[c.bb]['s'])), must=True)
            if any(x.endswith('LockManager.locks') for x in held):
                rep.holds('R12f', f, 'add_wait#%d' % k, 'under LockManager.locks')
            else:
                rep.violation('R12f', f, 'wait-edge-outside-lock', f.loc(c.line),
                              'add_wait runs after the lock table guard was dropped (held here: %s): the blocker can release and leave the '
                              'wait-for graph in between, and the edge recorded afterwards is never removed — a finished transaction stays '
                              'in the graph as a holder and can be reported in a deadlock cycle' % (sorted(held) or 'nothing'))
    rep.floor('R12f', 'add_wait calls in LockManager', n, 1)


def r12g(ctx, rep, cr):
    rep.rule('R12g', 'a release that took a key out of the lock table also takes the transaction out of the wait-for graph: in every '
                     'LockManager function that calls WaitForGraph::remove_transaction once (not per element of a collection), no return is '
                     'reachable after a removal from LockManager.locks without passing that call (path-sensitive on the Option that '
                     'carries the owner found in the table; where the owner travels in a value the path analysis cannot follow, the tests in '
                     'front of the cleanup may depend on the lock table only). A cleanup that is made conditional on anything else — the per-transaction '
                     'key list being empty, for one: try_lock leaves stale keys in it after an expiry take-over — leaves a finished '
                     'transaction as holder in the graph, and its waiters wait for nothing')
    n = 0
    for name, f in sorted(cr.fns.items()):
        if not name.startswith(LM) or '{closure' in name:
            continue
        rt = [c for c in A.calls_to(f, ('re', r'WaitForGraph::remove_transaction$'))]
        if len(rt) != 1:
            continue
        c = rt[0]
        if c.bb in A.reachable(f, [x for x in A.succs(f, c.bb) if not f.bbs[x]['cleanup']]):
            continue   # per-element cleanup in a loop: the collection decides, not a path
        defs = A.Defs(f)
        gl = _guard_for(f, defs, LOCKS)
        rem = _map_calls(f, defs, gl, 'remove')
        if not rem:
            continue
        n += 1
        rep.analysed(f)
        rets = {i for i, b in enumerate(f.bbs) if b['t'][0] == 'ret'}
        R = A.reachable_cp(f, [0], cut_blocks={c.bb}, marks={x.bb for x in rem})
        verdict = None
        if R & rets:
            # the owner may travel in a value the path analysis cannot follow (`removed.last().map(|(_, tx)| *tx)`): then what
            # the tests in front of the cleanup depend on decides — the lock table (what was removed) is fine, the per-transaction
            # key list or any other state is a condition that can be false although a key was released
            cd = A.control_deps(f)
            seen_, work_, other = set(), [c.bb], set()
            while work_:
                b_ = work_.pop()
                for (a_, _s) in cd.get(b_, ()):
                    if a_ in seen_:
                        continue
                    seen_.add(a_)
                    work_.append(a_)
                    t_ = f.bbs[a_]['t']
                    if t_[0] == 'sw' and t_[1][0] != 'k':
                        sl_ = A.backward_slice(f, [t_[1]], defs)
                        flds = set(sl_.fields)
                        for cn in sl_.closures:
                            h_ = cr.fns.get(cn[8:] if cn.startswith('closure:') else cn)
                            if h_ is not None:
                                flds |= set(A.field_reads(h_))
                        other |= {x for x in flds if x.startswith(T.DT + 'LockManager.') and x != LOCKS}
            verdict = sorted(other)
        if R & rets and verdict:
            rep.violation('R12g', f, 'release-without-graph-cleanup', f.loc(c.line),
                          'after a key was removed from the lock table the function can return without WaitForGraph::remove_transaction: '
                          'the released transaction stays in the wait-for graph as a holder that holds nothing (the cleanup is conditional on %s)' % ', '.join(x.split('::')[-1] for x in verdict))
        elif R & rets:
            rep.holds('R12g', f, 'remove→graph cleanup', 'the cleanup is conditional only on what was found in the lock table')
        else:
            rep.holds('R12g', f, 'remove→graph cleanup', '%d table removal(s), each followed by remove_transaction on every path' % len(rem))
    rep.floor('R12g', 'single-shot graph cleanups after a table removal', n, 1)


def r12h(ctx, rep, cr):
    rep.rule('R12h', 'the cycle search is exhaustive: in the recursive search of the wait-for graph (deadlock::dfs_detect) a neighbour that is '
                     'not in `visited` is always descended into — from the false edge of visited.contains(neighbour) neither the next '
                     'loop iteration nor a return is reachable without the recursive call. All roots share one `visited` set, so a node '
                     'whose successors were skipped once (a depth limit, a budget) is never explored again and every cycle that runs '
                     'through it is missed: the detector then reports no deadlock although the recorded relations contain one')
    f = rep.require_fn('R12h', cr, 'tensor_chain::deadlock::dfs_detect')
    if f is None:
        return
    defs, uses = A.Defs(f), A.Uses(f)
    rec = [c for c in A.calls(f) if c.resolved == f.name]
    if not rep.floor('R12h', 'recursive calls of the search', len(rec), 1):
        return
    def ident(c_):
        a_ = c_.arg_local(0)
        if a_ is None:
            return None
        fs_, root_ = A.origin_fields(f, a_, defs)
        return (root_, tuple(A.place_fields(c_.args[0][1]) + fs_))
    # the visited set is the set the function inserts its own node into first (a parameter, or a field of a search-state struct)
    ins = sorted(A.calls_to(f, ('re', r'HashSet::<T, S(, A)?>::insert$')), key=lambda c_: c_.bb)
    reach0 = None
    vis_id = None
    for c_ in ins:
        # first in execution order: the one every other insert is reachable from
        others = [o_ for o_ in ins if o_ is not c_]
        R_ = A.reachable(f, [c_.bb])
        if all(o_.bb in R_ for o_ in others):
            vis_id = ident(c_)
            break
    tests = [c_ for c_ in A.calls_to(f, ('re', r'HashSet::<T, S(, A)?>::contains$')) if vis_id is not None and ident(c_) == vis_id]
    if not rep.floor('R12h', 'visited tests on a neighbour', len(tests), 1):
        return
    rep.analysed(f)
    stops = {c.bb for c in A.calls(f) if re.search(r'Iterator>?::next$', c.generic) or re.search(r'Iterator>?::next$', c.resolved)} | set(A.return_blocks(f))
    for k, c in enumerate(tests):
        o = A.call_outcome(f, c, uses)
        no = [t for (_, t) in getattr(o, 'err', [])]   # bool outcome: `err` = false edge
        if not no:
            rep.unresolved_instance('R12h', f, 'visited test#%d' % k, 'false edge of contains() not recognised')
            continue
        R = A.reachable(f, no, cut_blocks={x.bb for x in rec})
        if R & stops:
            rep.violation('R12h', f, 'unvisited-neighbour-skipped', f.loc(c.line),
                          'an unvisited neighbour can be left without descending into it: it stays unexplored for every later root as well '
                          '(shared visited set), and cycles through it are not reported')
        else:
            rep.holds('R12h', f, 'visited test#%d' % k, 'not visited ⇒ recursive call on every path')


def r12i(ctx, rep, cr):
    rep.rule('R12i', 'granting is all-or-nothing and fresh (sibling of R09i): in LockManager::try_lock and ::try_lock_with_wait_tracking the '
                     'loop around the insert into LockManager.locks inserts an entry on every iteration — no requested key is skipped '
                     'because an entry of the same transaction is already there (it may have expired: conflict checks ignore expired entries)')
    import c09
    for nm in ('try_lock', 'try_lock_with_wait_tracking'):
        f = rep.require_fn('R12i', cr, LM + nm)
        if f is not None:
            c09.acquisition_loop(rep, 'R12i', f, 'LockManager.locks', 'KeyLock.acquired_at_ms')


def r12j(ctx, rep, cr):
    rep.rule('R12j', 'the search leaves its stack as it found it: in deadlock::dfs_detect every set the function both inserts its node into '
                     'and removes it from (the on-stack set), and every vector it both pushes onto and pops (the path), is restored on '
                     'every return — no return is reachable after the insert / push without the matching remove / pop. A node left '
                     'marked as on-stack after an early return (a transaction that waits on nobody) makes a later back-edge test succeed '
                     'on a node that is no longer on the path: a cycle is reported in an acyclic graph, or a bystander is named as victim')
    f = rep.require_fn('R12j', cr, 'tensor_chain::deadlock::dfs_detect')
    if f is None:
        return
    defs = A.Defs(f)

    def ident(c_):
        a_ = c_.arg_local(0)
        if a_ is None:
            return None
        fs_, root_ = A.origin_fields(f, a_, defs)
        return (root_, tuple(A.place_fields(c_.args[0][1]) + fs_))
    pairs = []
    for (acq, rel) in ((r'HashSet::<T, S(, A)?>::insert$', r'HashSet::<T, S(, A)?>::remove$'), (r'Vec::<T, A>::push$', r'Vec::<T, A>::pop$')):
        for a in A.calls_to(f, ('re', acq)):
            rels = [r for r in A.calls_to(f, ('re', rel)) if ident(r) == ident(a) and ident(a) is not None]
            if rels:
                pairs.append((a, rels))
    if not rep.floor('R12j', 'insert/remove and push/pop pairs on the search state', len(pairs), 2):
        return
    rep.analysed(f)
    rets = set(A.return_blocks(f))
    for k, (a, rels) in enumerate(pairs):
        start = [a.target] if a.target is not None and a.target >= 0 else A.succs(f, a.bb)
        R = A.reachable(f, start, cut_blocks={r.bb for r in rels})
        if R & rets:
            rep.violation('R12j', f, 'stack-not-restored-%s' % a.generic.split('::')[-1], f.loc(a.line),
                          'after %s at line %d a return is reachable without the matching %s: the search state keeps a node that is no '
                          'longer being explored' % (a.generic.split('::')[-1], a.line, rels[0].generic.split('::')[-1]))
        else:
            rep.holds('R12j', f, 'pair#%d' % k, '%s … %s on every return' % (a.generic.split('::')[-1], rels[0].generic.split('::')[-1]))


def r12k(ctx, rep, cr):
    rep.rule('R12k', 'expiry releases only what has expired (sibling of R09j): in LockManager::cleanup_expired and '
                     '::cleanup_expired_with_wait_cleanup every key removed from LockManager.locks is selected from that table by '
                     'is_expired() on the entry itself, and does not come out of the per-transaction list tx_locks')
    import c09
    for nm in ('cleanup_expired', 'cleanup_expired_with_wait_cleanup'):
        f = rep.require_fn('R12k', cr, LM + nm)
        if f is not None:
            c09.expiry_janitor(rep, 'R12k', cr, f, 'LockManager.locks', 'LockManager.tx_locks')


def r12l(ctx, rep, cr):
    rep.rule('R12l', 'the victim of a reported cycle is chosen from that cycle: in DeadlockDetector::detect no iteration of the loop over the '
                     'detected cycles builds a DeadlockInfo without having called select_victim in that iteration (select_victim returns '
                     'only members of the cycle it is given, R12c). A victim carried over from an earlier cycle of the same pass need not '
                     'be in this one')
    for h in A.with_closures(cr.fns, 'tensor_chain::deadlock::DeadlockDetector::detect'):
        sv = A.calls_to(h, ('re', r'DeadlockDetector::select_victim$'))
        builds = [i for i, b in enumerate(h.bbs) if not b['cleanup'] and any(st[1][0] == 'agg' and st[1][1].endswith('deadlock::DeadlockInfo') for st in b['s'])]
        if not sv or not builds:
            continue
        rep.analysed(h)
        dom = A.dominators(h)
        uses = A.Uses(h)
        heads = [x for x in A.calls(h) if (re.search(r'Iterator>?::next$', x.generic) or re.search(r'Iterator>?::next$', x.resolved)) and
                 any(x.bb in dom[b] for b in builds)]
        if not heads:
            rep.holds('R12l', h, 'victim', 'not in a loop')
            return
        hd = max(heads, key=lambda x: len(dom[x.bb]))
        some = [t for (_, t) in A.call_outcome(h, hd, uses).ok] or ([hd.target] if hd.target is not None and hd.target >= 0 else [])
        R = A.reachable(h, some, cut_blocks={c.bb for c in sv} | {hd.bb})
        if any(b in R for b in builds):
            rep.violation('R12l', h, 'victim-not-chosen-from-this-cycle', h.loc(sv[0].line),
                          'a DeadlockInfo can be built for a cycle without select_victim having been called for it: the reported victim may '
                          'not belong to the cycle')
        else:
            rep.holds('R12l', h, 'victim', 'select_victim is called for every reported cycle')
        return
    rep.violation('R12l', 'anchor-missing', 'DeadlockDetector::detect', '-', 'anchor-missing: detect no longer calls select_victim and builds DeadlockInfo in one body')


def run(ctx, rep):
    cr = ctx.crate('tensor_chain')
    r12a(ctx, rep, cr)
    r12b(ctx, rep, cr)
    r12c(ctx, rep, cr)
    r12d(ctx, rep, cr)
    r12e(ctx, rep, cr)
    r12f(ctx, rep, cr)
    r12g(ctx, rep, cr)
    r12h(ctx, rep, cr)
    r12i(ctx, rep, cr)
    r12j(ctx, rep, cr)
    r12k(ctx, rep, cr)
    r12l(ctx, rep, cr)
    if ctx.tier == 'thorough':
        witness.run(rep, 'R12a', ['LockTablesArePrivate'])
