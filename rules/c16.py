"""C16 Chain — tamper evidence and atomic, deterministic commits (structural part)."""
import re
import analyses as A
import lib
import lockgraph as LG

CH = 'tensor_chain::chain::Chain::'
BL = 'tensor_chain::block::'
ASSUMPTIONS = ['hash / signature strength and merge semantics are not decided here']
RESTORE = ('re', r'^tensor_store::TensorStore::restore_from_bytes$')
SNAP = ('re', r'^tensor_store::TensorStore::snapshot_bytes$')


def _nc_union(f, bb, defs, cd):
    fields, calls = set(), set()
    for (a, s, sl) in A.necessary_condition_sources(f, bb, defs, cd):
        fields |= sl.fields
        calls |= sl.calls
    return fields, calls


def r16a(ctx, rep, cr):
    rep.rule('R16a', 'Chain::append stores a block only on paths whose must-pass tests read the block height, the predecessor hash and '
                     'verify_tx_root, and (non-genesis) a non-empty signature and, with a registry, verify_signature; Block::verify_chain '
                     'returns Ok only through tests on height, predecessor hash and verify_tx_root, and Chain::verify_chain calls it and '
                     'verify_signature for every block (the full-chain verifier is not weaker than append)')
    f = rep.require_fn('R16a', cr, CH + 'append')
    HDR = BL + 'BlockHeader.'
    if f is not None:
        defs, uses, cd = A.Defs(f), A.Uses(f), A.control_deps(f)
        sb = A.calls_to(f, CH + 'store_block')
        if not sb:
            rep.violation('R16a', f, 'store_block', f.loc(), 'anchor-missing: append no longer calls store_block')
        else:
            fields, calls = _nc_union(f, sb[0].bb, defs, cd)
            for what, ok in (('height', HDR + 'height' in fields), ('prev_hash', HDR + 'prev_hash' in fields),
                             ('tx_root', any(c.endswith('Block::verify_tx_root') for c in calls))):
                if ok:
                    rep.holds('R16a', f, 'append checks ' + what, 'must-pass before store_block')
                else:
                    rep.violation('R16a', f, 'append-skips-' + what, f.loc(sb[0].line), 'a block can be stored without a must-pass check of its %s' % what)
            # signature: cut the "signature present" edge and the genesis bypass
            ie = [c for c in A.calls_to(f, ('re', r'::is_empty$')) if any(x.endswith('BlockHeader.signature') for x in
                  (A.place_fields(c.args[0][1]) + A.origin_fields(f, c.args[0][1][0], defs)[0]))]
            if not ie:
                rep.violation('R16a', f, 'append-skips-signature', f.loc(), 'append no longer tests that the block is signed')
            else:
                o = A.call_outcome(f, ie[0], uses)
                bypass = set()
                for (a, s) in cd.get(ie[0].bb, ()):
                    for s2 in set(A.succs(f, a)):
                        if s2 != s:
                            bypass.add((a, s2))
                R = A.reachable(f, [0], cut_edges=o.err | bypass)
                if sb[0].bb in R or not o.err:
                    rep.violation('R16a', f, 'append-unsigned', f.loc(ie[0].line), 'a non-genesis block with an empty signature can reach store_block')
                else:
                    rep.holds('R16a', f, 'append checks signature present', 'non-genesis blocks must be signed')
            vs = A.calls_to(f, BL + 'BlockHeader::verify_signature')
            if not vs:
                rep.violation('R16a', f, 'append-skips-verify_signature', f.loc(), 'append no longer verifies the proposer signature against the validator registry')
            else:
                o = A.call_outcome(f, vs[0], uses)
                bypass = set()
                frontier = [vs[0].bb]
                seen = set()
                for _ in range(3):
                    nxt = []
                    for b in frontier:
                        for (a, s) in cd.get(b, ()):
                            if a in seen:
                                continue
                            seen.add(a)
                            for s2 in set(A.succs(f, a)):
                                if s2 != s:
                                    bypass.add((a, s2))
                            nxt.append(a)
                    frontier = nxt
                R = A.reachable(f, [0], cut_edges=o.ok | bypass)
                if sb[0].bb in R or not (o.ok or o.returned):
                    rep.violation('R16a', f, 'append-bad-signature', f.loc(vs[0].line), 'with a registry configured, a block whose signature does not verify can reach store_block')
                else:
                    rep.holds('R16a', f, 'append verifies signature', 'store_block only after Ok verify_signature (when a registry is configured)')
    g = rep.require_fn('R16a', cr, BL + 'Block::verify_chain')
    if g is not None:
        defs, cd = A.Defs(g), A.control_deps(g)
        fb = lib.failure_blocks(g)
        okr = [r for r in A.return_blocks(g)]
        # the Ok-constructing block
        okb = [i for i, b in enumerate(g.bbs) if not b['cleanup'] and any(st[0][0] == 0 and st[1][0] == 'agg' and st[1][1].endswith('Result::Ok') for st in b['s'])]
        if not okb:
            rep.violation('R16a', g, 'ok-exit', g.loc(), 'anchor-missing: no Ok exit')
        else:
            fields, calls = _nc_union(g, okb[0], defs, cd)
            for what, ok in (('height', HDR + 'height' in fields), ('prev_hash', HDR + 'prev_hash' in fields and any(c.endswith('Block::hash') for c in calls)),
                             ('tx_root', any(c.endswith('Block::verify_tx_root') for c in calls))):
                if ok:
                    rep.holds('R16a', g, 'verify_chain checks ' + what, 'must-pass before Ok')
                else:
                    rep.violation('R16a', g, 'verify-skips-' + what, g.loc(), 'Block::verify_chain can return Ok without checking the %s: an altered / reordered / forged block verifies' % what)
    h = rep.require_fn('R16a', cr, CH + 'verify_chain')
    if h is not None:
        uses = A.Uses(h)
        for callee, nm in ((BL + 'Block::verify_chain', 'link check'), (BL + 'BlockHeader::verify_signature', 'signature check')):
            cs = A.calls_to(h, callee)
            if not cs:
                rep.violation('R16a', h, 'verify_chain-' + nm.split()[0], h.loc(), 'Chain::verify_chain no longer performs the per-block %s' % nm)
                continue
            o = A.call_outcome(h, cs[0], uses)
            in_loop = cs[0].bb in A.reachable(h, [cs[0].target]) if cs[0].target is not None else False
            if in_loop and (o.returned or o.err or o.ok):
                rep.holds('R16a', h, 'verify_chain ' + nm, 'per block, result propagated')
            else:
                rep.violation('R16a', h, 'verify_chain-' + nm.split()[0] + '-weak', h.loc(cs[0].line), 'the %s is not done per block with its error propagated (in loop: %s)' % (nm, in_loop))


def r16b(ctx, rep, cr):
    rep.rule('R16b', 'Chain::append is one critical section: the append_lock guard is live from the height read to the height / tip '
                     'store on every path')
    f = rep.require_fn('R16b', cr, CH + 'append')
    if f is None:
        return
    defs = A.Defs(f)
    gs = [g for g in A.guards(f, defs) if any(x.endswith('Chain.append_lock') for x in g.lock_fields)]
    if not gs:
        rep.violation('R16b', f, 'append_lock', f.loc(), 'append no longer takes append_lock')
        return
    lv = [A.live_positions(f, g.acq, g.kills, must=True) for g in gs]
    sites = A.calls_to(f, CH + 'height') + A.calls_to(f, CH + 'tip_hash') + A.calls_to(f, CH + 'store_block') + \
        A.calls_to(f, CH + 'save_height') + A.calls_to(f, ('re', r'AtomicU64::store$'))
    rep.floor('R16b', 'height/tip read-write sites in append', len(sites), 3)
    bad = [c for c in sites if not any(A.live_at(l, (c.bb, len(f.bbs[c.bb]['s']))) for l in lv)]
    if bad:
        rep.violation('R16b', f, 'outside-lock', f.loc(bad[0].line), '%s runs while append_lock is not held: two appends can read the same height' % lib.short(bad[0].resolved))
    else:
        rep.holds('R16b', f, 'critical section', '%d sites under append_lock' % len(sites))


def r16c(ctx, rep, cr):
    rep.rule('R16c', 'pre-image discipline: in every function that takes snapshot_bytes() and later mutates the store (TensorChain::commit, '
                     'TensorStateMachine::{apply_block, apply_entry}), every restore_from_bytes puts back bytes that come from a snapshot_bytes call of the same function, a lock guard is live from that snapshot to every restore_from_bytes '
                     'and to the chain append — otherwise a losing concurrent commit restores a pre-image that erases the winner\'s '
                     'writes and block records; and restore_from_bytes is called on every failure exit after the chain append failed '
                     'or the state root mismatched')
    cg = ctx.callgraph(['tensor_chain'])
    n = 0
    for name in ('tensor_chain::TensorChain::commit', 'tensor_chain::state_machine::TensorStateMachine::apply_block',
                 'tensor_chain::state_machine::TensorStateMachine::apply_entry'):
        f = rep.require_fn('R16c', cr, name)
        if f is None:
            continue
        defs, uses = A.Defs(f), A.Uses(f)
        snaps = A.calls_to(f, SNAP)
        rests = A.calls_to(f, RESTORE)
        if not rests and not snaps:
            names3 = ('tensor_chain::TensorChain::commit', 'tensor_chain::state_machine::TensorStateMachine::apply_block',
                      'tensor_chain::state_machine::TensorStateMachine::apply_entry')
            deleg = [c for c in A.calls(f) if c.resolved in names3 and c.resolved != name]
            mutates = [c for c in A.calls(f) if re.search(r'apply_operations_to_store$|apply_transaction$', c.resolved)]
            if deleg and not mutates:
                rep.holds('R16c', f, 'pre-image', 'delegates to %s' % lib.short(deleg[0].resolved))
                continue
            if not mutates:
                rep.holds('R16c', f, 'pre-image', 'does not mutate the store itself')
                continue
            rep.violation('R16c', f, 'mutates-without-pre-image', f.loc(mutates[0].line),
                          'the store is mutated here with no pre-image taken and no restore on failure: a failed append leaves the store changed and the chain not')
            continue
        if not rests:
            rep.violation('R16c', f, 'shape', f.loc(), 'anchor-missing: no snapshot_bytes (%d) / restore_from_bytes (%d)' % (len(snaps), len(rests)))
            continue
        n += 1
        # (1) every restore puts back an image taken by snapshot_bytes in this function (i.e. inside the critical section checked in (2)),
        # not one captured earlier (e.g. at begin()): an older image also erases what other commits applied in between
        stale = []
        for c in rests:
            sl = A.backward_slice(f, [c.args[1]], defs)
            if not any(sn.dest[0] in sl.locals for sn in snaps):
                stale.append(c)
        for k, c in enumerate(stale):
            rep.violation('R16c', f, 'stale-preimage', f.loc(c.line),
                          'restore_from_bytes puts back bytes that do not come from a snapshot_bytes() call of this function: an image '
                          'captured before the critical section (at begin()) is older than blocks committed since, so a failing commit '
                          'erases their writes and their stored block records')
        if stale or not snaps:
            continue
        # (2) a guard spans snapshot .. restore / append
        guards = A.guards(f, defs)
        entry = set()
        try:
            import c05
            entry = c05.held_on_entry(cg, f.name, 2)
        except Exception:
            entry = set()
        spans = set(entry)
        for g in guards:
            lv = A.live_positions(f, g.acq, g.kills, must=True)
            if A.live_at(lv, (snaps[0].bb, len(f.bbs[snaps[0].bb]['s']))) and all(A.live_at(lv, (c.bb, len(f.bbs[c.bb]['s']))) for c in rests):
                spans.add(LG.lock_id(g) or '_%d' % g.local)
        if spans:
            rep.holds('R16c', f, 'snapshot…restore under lock', '%s' % sorted(spans))
        elif not name.endswith('TensorChain::commit'):
            # replica apply is driven by one Raft apply loop; the property quantifies over concurrent *commits*
            rep.candidate('R16c', f, f.loc(snaps[0].line), 'pre-image taken and restored with no lock (replica apply path; single apply loop today) — listed, not armed')
        else:
            rep.violation('R16c', f, 'unlocked-preimage', f.loc(snaps[0].line),
                          'the store pre-image is taken and later restored with no lock held across the two (nor by the callers): of two '
                          'concurrent commits the loser restores a pre-image from before the winner applied, erasing the winner\'s writes '
                          'and block records')
        # (3) failure exits after a failed append / root mismatch pass restore
        apps = [c for c in A.calls(f) if re.search(r'Chain::append$|TensorStateMachine::append_(fast|full)$', c.resolved)]
        for k, c in enumerate(apps):
            o = A.call_outcome(f, c, uses)
            if not o.err:
                rep.unresolved_instance('R16c', f, 'append#%d' % k, 'error edge of the append not recognised')
                continue
            R = A.reachable(f, [t for (_, t) in o.err], cut_blocks={r.bb for r in rests})
            rets = [r for r in A.return_blocks(f) if r in R]
            if rets:
                rep.violation('R16c', f, 'append-failure-no-restore', f.loc(c.line), 'when the chain append fails the function can return without restoring the pre-image: store changed, chain not')
            else:
                rep.holds('R16c', f, 'append#%d failure restores' % k, '')
        # candidates: `?` exits between first mutation and the end that skip the restore
        muts = [c for c in A.calls(f) if re.search(r'apply_operations_to_store$|apply_transaction$', c.resolved)]
        for c in A.calls(f):
            if c.resolved.endswith('compute_state_root') and muts:
                o = A.call_outcome(f, c, uses)
                if o.err:
                    R = A.reachable(f, [t for (_, t) in o.err], cut_blocks={r.bb for r in rests})
                    if any(r in R for r in A.return_blocks(f)):
                        rep.candidate('R16c', f, f.loc(c.line), 'error of compute_state_root after the store was mutated returns without restore (needs a store read to fail; not armed)')
    rep.floor('R16c', 'snapshot-then-mutate functions', n, 3)


def r16d(ctx, rep, cr):
    rep.rule('R16d', 'compute_state_root: every collection iterated by a loop that feeds the hasher was sorted in the same function '
                     '(the root does not depend on map iteration order)')
    f = rep.require_fn('R16d', cr, 'tensor_chain::state_root::compute_state_root')
    if f is None:
        return
    defs = A.Defs(f)
    upd = A.calls_to(f, ('re', r'Digest>::update$|Update>::update$|::update$'))
    rep.floor('R16d', 'hasher updates', len(upd), 2)
    # loops: IntoIterator::into_iter calls whose iterator's next() dominates an update
    iters = [c for c in A.calls(f) if re.search(r'IntoIterator>::into_iter$', c.generic) or re.search(r'IntoIterator>::into_iter$', c.resolved)]
    sorts = A.calls_to(f, ('re', r'slice::<impl \[T\]>::sort(_unstable)?$|::sort$|::sort_unstable$|::sort_by$|::sort_by_key$'))
    sorted_roots = set()
    for c in sorts:
        a = c.arg_local(0)
        if a is not None:
            sorted_roots |= defs.ref_targets(a) | {a}
            _, root = A.origin_fields(f, a, defs)
            sorted_roots.add(root)
    n = 0
    for it in iters:
        # does this loop feed the hasher?
        body = A.reachable(f, [it.target]) if it.target is not None else set()
        if not any(u.bb in body for u in upd):
            continue
        n += 1
        a = it.arg_local(0)
        src = {a} | (defs.ref_targets(a) if a is not None else set())
        d = A.single_def(defs, a) if a is not None else None
        if d and d[2] == 'st' and d[3][1][0] == 'use' and d[3][1][1][0] in ('c', 'm'):
            src.add(d[3][1][1][1][0])
        if src & sorted_roots:
            rep.holds('R16d', f, 'loop#%d' % n, 'iterates a collection sorted in this function')
        else:
            rep.violation('R16d', f, 'unsorted-iteration', f.loc(it.line), 'a loop feeding the state-root hasher iterates a collection that was not sorted: replicas can disagree on the root')
    rep.floor('R16d', 'hashing loops', n, 2)


def r16e(ctx, rep, cr):
    rep.rule('R16e', 'the verifier proves a block at every height: Chain::verify_chain fetches blocks one height at a time inside a loop and '
                     'the `no block stored at this height` outcome (None) of that fetch cannot reach a success return — or, if it fetches in '
                     'bulk, the number of blocks fetched is compared with the recorded height on the way to Ok. A verifier that silently '
                     'skips missing heights accepts a chain whose tip or tail was deleted')
    f = rep.require_fn('R16e', cr, CH + 'verify_chain')
    if f is None:
        return
    uses = A.Uses(f)
    defs = A.Defs(f)
    fetch = [c for c in A.calls_to(f, ('re', r'Chain::(get_block_at|get_block)$')) if c.bb in A.reachable(f, [c.target])]
    ok_a = False
    for c in fetch:
        tainted = lib.forward_taint(f, {c.dest[0]})
        for l in sorted(tainted):
            if not f.locals[l].startswith('std::option::Option<'):
                continue
            o = A.outcome_edges(f, l, 'option', uses)
            if not o.err:
                continue
            if not lib.success_return_reachable(f, [t for (_, t) in o.err]):
                ok_a = True
    if ok_a:
        rep.holds('R16e', f, 'per-height existence', 'a missing block at any height up to the tip is an error')
        return
    # bulk form: len(fetched) compared with the height on a must-pass edge to every success return
    ok_b = False
    bulk = A.calls_to(f, ('re', r'Chain::get_blocks_range$'))
    if bulk:
        tainted = set()
        for c in bulk:
            tainted |= lib.forward_taint(f, {c.dest[0]})
        hts = set()
        for c in A.calls_to(f, ('re', r'Chain::height$')):
            hts |= lib.forward_taint(f, {c.dest[0]})
        rets = lib.success_return_reachable(f, [0])
        for r_ in rets[-1:]:
            for (a, s_) in A.must_pass_edges(f, r_):
                l = lib.switch_local(f, a)
                d = A.single_def(defs, l) if l is not None else None
                if d and d[2] == 'st' and d[3][1][0] == 'bin' and d[3][1][1] in ('Eq', 'Ne', 'Lt', 'Le', 'Gt', 'Ge'):
                    sides = [A.backward_slice(f, [d[3][1][i]], defs) for i in (2, 3)]
                    if any((sl.locals & tainted) and any(x.endswith('::len') for x in sl.calls) for sl in sides) and any(sl.locals & hts for sl in sides):
                        ok_b = True
    if ok_b:
        rep.holds('R16e', f, 'bulk count check', 'number of fetched blocks compared with the height')
    else:
        rep.violation('R16e', f, 'missing-height-accepted', f.loc(),
                      'verify_chain does not turn `no block at height h` into an error for every h up to the recorded height (per-height '
                      'fetches in a loop: %d; bulk fetches: %d, none with a count check): deleting the tip block or any tail leaves '
                      'verify() returning Ok while height() and tip_hash() name a missing block' % (len(fetch), len(bulk)))


def _root_check_edges(f, defs):
    """edges taken when header.state_root equals the state root computed from the store"""
    out = set()
    for i, b in enumerate(f.bbs):
        if b['cleanup'] or b['t'][0] != 'sw':
            continue
        l = lib.switch_local(f, i)
        d = A.single_def(defs, l) if l is not None else None
        if not d:
            continue
        ops = None
        is_ne = False
        if d[2] == 'call' and re.search(r'PartialEq(<.*>)?>?::(eq|ne)$', d[3].generic):
            ops = d[3].args
            is_ne = d[3].generic.endswith('ne')
        elif d[2] == 'st' and d[3][1][0] == 'bin' and d[3][1][1] in ('Eq', 'Ne'):
            ops = [d[3][1][2], d[3][1][3]]
            is_ne = d[3][1][1] == 'Ne'
        if not ops:
            continue
        sl = A.backward_slice(f, ops, defs)
        if not any(x.endswith('BlockHeader.state_root') for x in sl.fields) or not any(x.endswith('compute_state_root') for x in sl.calls):
            continue
        t = b['t']
        if not all(v == '0' for v, _ in t[2]):
            continue
        zero = dict(t[2]).get('0')
        out.add((i, zero if is_ne else t[3]))
    return out


def r16f(ctx, rep, cr):
    rep.rule('R16f', 'a replica stores a block only if its state root matches the state it computed: every call to Chain::append in '
                     'TensorStateMachine is reachable only through the equal edge of a comparison between BlockHeader.state_root and '
                     'compute_state_root(store) — in the function itself, or at every call site of the helper that contains it '
                     '(append_fast and append_full alike; callers to depth 2). A fast path that skips the comparison lets replicas '
                     'agree on the chain while holding different state')
    cg = ctx.callgraph(['tensor_chain'])
    SM = 'tensor_chain::state_machine::TensorStateMachine::'
    n = 0

    def guarded(fname, bb, depth):
        g = cg.fns[fname]
        gd = A.Defs(g)
        eq = _root_check_edges(g, gd)
        if eq:
            # cut the *unequal* continuation: everything except the equal edges of those switches
            cut = set()
            for (a, tgt) in eq:
                for s_ in A.succs(g, a):
                    if s_ != tgt:
                        cut.add((a, s_))
            R = A.reachable(g, [0], cut_edges={(a, tgt) for (a, tgt) in eq})
            if bb not in R:
                return True
        if depth <= 0:
            return False
        callers = [x for x in cg.redges.get(fname, ()) if x in cg.fns and x.startswith(SM)]
        if not callers:
            return False
        for h in callers:
            for s_ in cg.sites.get((h, fname), []):
                if not guarded(h, s_.bb, depth - 1):
                    return False
        return True
    for name, f in sorted(cr.fns.items()):
        if not name.startswith(SM):
            continue
        for k, c in enumerate(A.calls_to(f, ('re', r'chain::Chain::append$'))):
            n += 1
            rep.analysed(f)
            if guarded(name, c.bb, 2):
                rep.holds('R16f', f, 'append#%d' % k, 'behind state_root == compute_state_root')
            else:
                rep.violation('R16f', f, 'append-without-root-check', f.loc(c.line),
                              'the block is appended on a path where header.state_root was never compared with the state root computed '
                              'from the store: a block with a forged or diverged state_root is accepted, and replicas agree on the chain '
                              'while their stores differ')
    rep.floor('R16f', 'Chain::append calls in TensorStateMachine', n, 2)


def _ws_identity(f, defs, op, depth=8):
    """(root local, field path) of a workspace value, looked through borrows, copies and Arc / Deref / clone calls"""
    if op[0] == 'k':
        return None
    l, fields = op[1][0], tuple(A.place_fields(op[1]))
    for _ in range(depth):
        if 1 <= l <= f.argc:
            break
        d = A.single_def(defs, l)
        if not d:
            break
        if d[2] == 'st':
            rv = d[3][1]
            pl = rv[1] if rv[0] == 'ref' else (rv[1][1] if rv[0] == 'use' and rv[1][0] != 'k' else None)
            if pl is None:
                break
            fields = tuple(A.place_fields(pl)) + fields
            l = pl[0]
        elif d[2] == 'call' and re.search(r'Deref>::deref$|Clone>::clone$|AsRef<.*>>::as_ref$|Borrow<.*>>::borrow$', d[3].generic + ' ' + d[3].resolved) \
                and d[3].args and d[3].args[0][0] != 'k':
            a = d[3].args[0][1]
            fields = tuple(A.place_fields(a)) + fields
            l = a[0]
        else:
            break
    return (l, fields)


def r16g(ctx, rep, cr):
    rep.rule('R16g', 'each workspace enters one block: every TransactionWorkspace::operations call in TensorChain (the operations that become '
                     'the block\'s transactions) is reachable only through the Ok edge of TransactionWorkspace::mark_committing on the same '
                     'workspace value — claimed in the function itself, or, for a workspace received as a parameter, at every call site '
                     'before the call. mark_committing is the atomic Active→Committing claim; a check-then-use (is_active) lets the '
                     'owner\'s own commit and a merging commit both include the workspace, and its writes appear in two blocks')
    cg = A.CallGraph([cr])
    OPS = ('re', r'TransactionWorkspace::operations$')
    CLAIM = ('re', r'TransactionWorkspace::mark_committing$')
    n = 0

    def claimed_before(g, blocks, ident_of):
        """is every block in `blocks` unreachable from g's entry once the Ok edges of the matching claims are cut?"""
        gd, gu = A.Defs(g), A.Uses(g)
        cut = set()
        for m in A.calls_to(g, CLAIM):
            if m.args and _ws_identity(g, gd, m.args[0]) == ident_of(g, gd):
                cut |= set(A.call_outcome(g, m, gu).ok)
        if not cut:
            return False
        R = A.reachable(g, [0], cut_edges=cut)
        return not any(b in R for b in blocks)

    for name, f in sorted(cr.fns.items()):
        if not name.startswith('tensor_chain::TensorChain::') or '{closure' in name:
            continue
        ops = A.calls_to(f, OPS)
        if not ops:
            continue
        defs = A.Defs(f)
        for k, c in enumerate(ops):
            n += 1
            rep.analysed(f)
            ident = _ws_identity(f, defs, c.args[0]) if c.args else None
            if ident is None:
                rep.unresolved_instance('R16g', f, 'operations#%d' % k, 'receiver not traced')
                continue
            if claimed_before(f, [c.bb], lambda g, gd, ident=ident: ident):
                rep.holds('R16g', f, 'operations#%d' % k, 'claimed by mark_committing in the function')
                continue
            ok = False
            if 1 <= ident[0] <= f.argc and not ident[1]:
                pidx = ident[0] - 1
                callers = [h for h in cg.redges.get(name, ()) if h in cr.fns]
                ok = bool(callers)
                for hn in callers:
                    h = cr.fns[hn]
                    for sc in cg.sites.get((hn, name), []):
                        if pidx >= len(sc.args) or not claimed_before(h, [sc.bb], lambda g, gd, sc=sc, pidx=pidx: _ws_identity(g, gd, sc.args[pidx])):
                            ok = False
            if ok:
                rep.holds('R16g', f, 'operations#%d' % k, 'parameter, claimed by mark_committing at every call site')
            else:
                rep.violation('R16g', f, 'unclaimed-workspace-operations', f.loc(c.line),
                              'the operations of a workspace are taken into the block without a successful mark_committing on that workspace '
                              'first: another commit can take the same workspace at the same time, and it is committed twice')
    rep.floor('R16g', 'TransactionWorkspace::operations calls in TensorChain', n, 2)


def r16h(ctx, rep, cr):
    rep.rule('R16h', 'the body is tied to the header for every block: Block::verify_tx_root never answers true by a constant — every path '
                     'to its return computes the answer from a comparison of BlockHeader.tx_root with compute_tx_root(). A shortcut for '
                     'special shapes (an empty transaction list "has no tree to rebuild") accepts a stored block whose transactions were '
                     'wiped while the signed, hash-linked header still names the old root')
    f = rep.require_fn('R16h', cr, BL + 'Block::verify_tx_root')
    if f is None:
        return
    rep.analysed(f)
    vals = A.return_bool_values(f)
    defs = A.Defs(f)
    cmp_ok = False
    for b in f.bbs:
        for st in b['s']:
            if st[1][0] == 'bin' and st[1][1] in ('Eq', 'Ne'):
                cmp_ok = True
        t = b['t']
        if t[0] == 'call' and re.search(r'PartialEq(<.*>)?>?::(eq|ne)$', t[1]):
            cmp_ok = True
    uses_root = any(x.endswith('BlockHeader.tx_root') for x in A.field_reads(f)) and bool(A.calls_to(f, ('re', r'Block::compute_tx_root$')))
    if True in vals:
        rep.violation('R16h', f, 'constant-true', f.loc(),
                      'verify_tx_root can return true without comparing the recorded root with the recomputed one')
    elif not (cmp_ok and uses_root):
        rep.violation('R16h', f, 'no-comparison', f.loc(), 'verify_tx_root no longer compares BlockHeader.tx_root with compute_tx_root()')
    else:
        rep.holds('R16h', f, 'verdict', 'always the comparison of header.tx_root with compute_tx_root()')


def r16i(ctx, rep, cr):
    rep.rule('R16i', 'a header is accepted only by checking its signature over its own bytes: BlockHeader::verify_signature returns Ok only '
                     'through the Ok edge of the public key\'s verify() (no success return is reachable with those edges cut), and the message '
                     'handed to verify() derives from BlockHeader::signing_bytes of the header being checked. An accept path that skips the '
                     'check — a cache of "signatures seen before" keyed without the signed bytes — lets an altered header that keeps '
                     'proposer and signature through verification')
    f = rep.require_fn('R16i', cr, BL + 'BlockHeader::verify_signature')
    if f is None:
        return
    rep.analysed(f)
    defs, uses = A.Defs(f), A.Uses(f)
    ver = [c for c in A.calls(f) if re.search(r'::verify$', c.resolved) and not c.resolved.endswith('BlockHeader::verify_signature')]
    if not ver:
        rep.violation('R16i', f, 'no-verify', f.loc(), 'anchor-missing: verify_signature no longer calls a verify() primitive')
        return
    cut, passthrough = set(), set()
    msg_ok = True
    for c in ver:
        o = A.call_outcome(f, c, uses)
        cut |= set(o.ok)
        if not o.ok and o.returned:
            passthrough.add(c.bb)   # `key.verify(..).map_err(..)` as the tail expression: the result is the function's result
        if len(c.args) > 1 and c.args[1][0] != 'k':
            sl = A.backward_slice(f, [c.args[1]], defs)
            if not any(x.endswith('BlockHeader::signing_bytes') for x in sl.calls):
                msg_ok = False
    rets = lib.success_return_reachable(f, [0], cut_edges=cut, cut_blocks=passthrough)
    if rets:
        rep.violation('R16i', f, 'accept-without-verify', f.loc(),
                      'verify_signature can return Ok without the signature having been checked against this header\'s bytes')
    elif not msg_ok:
        rep.violation('R16i', f, 'verifies-other-bytes', f.loc(), 'the bytes handed to verify() do not come from this header\'s signing_bytes()')
    else:
        rep.holds('R16i', f, 'verdict', 'Ok only through verify(signing_bytes(), signature)')


def run(ctx, rep):
    cr = ctx.crate('tensor_chain')
    r16a(ctx, rep, cr)
    r16b(ctx, rep, cr)
    r16c(ctx, rep, cr)
    r16d(ctx, rep, cr)
    r16e(ctx, rep, cr)
    r16f(ctx, rep, cr)
    r16g(ctx, rep, cr)
    r16h(ctx, rep, cr)
    r16i(ctx, rep, cr)
