"""Fact extraction (drives the rustc_private driver) and fact loading."""
import fcntl, glob, hashlib, json, os, re, shutil, subprocess, sys, time

VERIF = os.path.dirname(os.path.dirname(os.path.abspath(__file__)))
REPO = os.environ.get('NV_REPO', '/repo')
CACHE = os.path.join(VERIF, '.cache')
DRIVER_DIR = os.path.join(VERIF, 'driver')
DRIVER = os.path.join(DRIVER_DIR, 'target', 'release', 'nvdriver')

# workspace library crates whose facts the rules use
LIB_CRATES = [
    'tensor_store', 'relational_engine', 'graph_engine', 'vector_engine',
    'query_router', 'neumann_parser', 'tensor_compress', 'tensor_vault',
    'tensor_cache', 'tensor_blob', 'tensor_unified', 'tensor_checkpoint',
    'tensor_chain',
]


def _env():
    e = dict(os.environ)
    e['CARGO_NET_OFFLINE'] = 'true'
    return e


def nightly_sysroot():
    return subprocess.check_output(['rustc', '+nightly', '--print', 'sysroot'], env=_env(), text=True).strip()


def build_driver():
    subprocess.check_call(['cargo', 'build', '--release', '--offline'], cwd=DRIVER_DIR, env=_env())
    assert os.path.exists(DRIVER)


def tree_hash():
    """sha256 over every source file that can influence the facts."""
    h = hashlib.sha256()
    files = []
    skip = {'target', '.git', 'node_modules', 'docs', 'fuzz', 'neumann-py', 'neumann-ts'}
    for root, dirs, fs in os.walk(REPO):
        dirs[:] = sorted(d for d in dirs if d not in skip)
        for f in sorted(fs):
            if f.endswith('.rs') or f in ('Cargo.toml', 'Cargo.lock', 'build.rs') or f.endswith('.proto'):
                files.append(os.path.join(root, f))
    for p in files:
        h.update(os.path.relpath(p, REPO).encode())   # the facts do not depend on where the tree is checked out
        try:
            with open(p, 'rb') as fh:
                h.update(fh.read())
        except OSError:
            pass
    with open(os.path.join(DRIVER_DIR, 'src', 'main.rs'), 'rb') as fh:
        h.update(fh.read())
    return h.hexdigest()[:24]


def workspace_member_names():
    out = subprocess.check_output(
        ['cargo', 'metadata', '--offline', '--no-deps', '--format-version', '1'], cwd=REPO, env=_env(), text=True)
    return [p['name'] for p in json.loads(out)['packages']]


def ensure_facts(verbose=True):
    """Return the directory holding <crate>.jsonl for /repo's current tree,
    extracting if the cache has no entry for this tree hash."""
    os.makedirs(CACHE, exist_ok=True)
    lock = open(os.path.join(CACHE, 'lock'), 'w')
    fcntl.flock(lock, fcntl.LOCK_EX)
    try:
        if not os.path.exists(DRIVER) or os.path.getmtime(DRIVER) < os.path.getmtime(os.path.join(DRIVER_DIR, 'src', 'main.rs')):
            build_driver()
        th = tree_hash()
        fdir = os.path.join(CACHE, 'facts', th)
        if os.path.exists(os.path.join(fdir, 'OK')):
            return fdir, th, 0.0
        t0 = time.time()
        if os.path.exists(fdir):
            shutil.rmtree(fdir)
        os.makedirs(fdir)
        target = os.path.join(CACHE, 'target')
        # cargo's freshness cache would skip the wrapper: drop members' fingerprints
        members = workspace_member_names()
        for prof in glob.glob(os.path.join(target, '*', '.fingerprint')):
            for m in members:
                for d in glob.glob(os.path.join(prof, m + '-*')) + glob.glob(os.path.join(prof, m.replace('_', '-') + '-*')):
                    shutil.rmtree(d, ignore_errors=True)
        e = _env()
        e['LD_LIBRARY_PATH'] = nightly_sysroot() + '/lib'
        e['RUSTFLAGS'] = '-Zmir-opt-level=0 -Awarnings'
        e['RUSTC_WORKSPACE_WRAPPER'] = DRIVER
        e['CARGO_TARGET_DIR'] = target
        e['NV_FACTS_DIR'] = fdir
        e['NV_CRATES'] = ','.join(LIB_CRATES)
        e['NV_WORKSPACE'] = ','.join(LIB_CRATES)
        cmd = ['cargo', '+nightly', 'check', '--offline', '--lib']
        for c in LIB_CRATES:
            cmd += ['-p', c]
        r = subprocess.run(cmd, cwd=REPO, env=e, stdout=subprocess.PIPE, stderr=subprocess.STDOUT, text=True)
        if r.returncode != 0:
            sys.stderr.write(r.stdout[-6000:])
            shutil.rmtree(fdir, ignore_errors=True)
            raise SystemExit('nv: fact extraction failed (cargo check returned %d)' % r.returncode)
        missing = [c for c in LIB_CRATES if not os.path.exists(os.path.join(fdir, c + '.jsonl'))]
        if missing:
            shutil.rmtree(fdir, ignore_errors=True)
            raise SystemExit('nv: fact extraction wrote no facts for: %s' % missing)
        open(os.path.join(fdir, 'OK'), 'w').write(th)
        # keep only the most recent fact sets
        allsets = sorted(glob.glob(os.path.join(CACHE, 'facts', '*')), key=os.path.getmtime)
        keep = int(os.environ.get('NV_FACT_SETS', '16'))   # tools/regress_all.sh raises this: one set per kept patch
        for old in allsets[:-keep]:
            shutil.rmtree(old, ignore_errors=True)
        dt = time.time() - t0
        if verbose:
            print('nv: extracted facts for %d crates in %.1fs -> %s' % (len(LIB_CRATES), dt, fdir))
        return fdir, th, dt
    finally:
        fcntl.flock(lock, fcntl.LOCK_UN)
        lock.close()


def _undo_state_transform(d):
    """A coroutine body whose pre-transform MIR was no longer available: the state machine's entry
    dispatch jumps straight to every resume point, which would let every path skip what precedes
    an await. Rebuild the source-level CFG: entry -> start arm; `discriminant = k; return` -> resume arm k."""
    bbs = d['bb']
    if not bbs or bbs[0]['t'][0] != 'sw':
        return
    t0 = bbs[0]['t']
    arms = {int(v): b for v, b in t0[2]}
    if 0 not in arms:
        return
    for b in bbs:
        k = None
        for st in b['s']:
            if st[1][0] == 'setdisc' and st[0][0] == 1:
                k = st[1][1]
        if k is not None and b['t'][0] == 'ret' and k in arms and k >= 3:
            b['t'] = ['yield', arms[k]]
    bbs[0]['t'] = ['goto', arms[0]]
    d['co'] = 3


class Fn:
    __slots__ = ('d', 'name', 'crate', 'bbs', '_succ', '_pred')

    def __init__(self, d, crate):
        self.d = d
        self.name = d['n']
        self.crate = crate
        self.bbs = d['bb']
        self._succ = None
        self._pred = None

    @property
    def file(self):
        return self.d['f']

    @property
    def line(self):
        return self.d['l']

    @property
    def locals(self):
        return self.d['locals']

    @property
    def argc(self):
        return self.d['argc']

    def loc(self, line=None):
        return '%s:%s' % (self.file, line if line is not None else self.line)


class Crate:
    def __init__(self, name, path, aliases=None):
        self.name = name
        self.aliases = aliases or {}
        self.fns = {}
        self.adts = {}
        self.impls = []
        rx0 = re.compile(r'(?<![A-Za-z0-9_])crate::')
        # impl<'a> Parser<'a> methods print as `Parser::<'a>::f`: drop lifetime-only generic segments
        rlt = re.compile(r"::<'\w+(?:, '\w+)*>")
        rep = name + '::'

        class _Rx:
            @staticmethod
            def sub(r, line):
                return rlt.sub('', rx0.sub(r, line))
        rx = _Rx
        if self.aliases:
            arx = re.compile(r'(?<![A-Za-z0-9_])(?<!::)(' + '|'.join(re.escape(k) for k in sorted(self.aliases, key=len, reverse=True)) + r')(?![A-Za-z0-9_])')
            amap = self.aliases

            class _Rx2:
                @staticmethod
                def sub(r, line):
                    return arx.sub(lambda m_: amap[m_.group(1)], _Rx.sub(r, line))
            rx = _Rx2
        with open(path) as fh:
            head = json.loads(rx.sub(rep, fh.readline()))
            for a in head['adts']:
                self.adts[a['n']] = a
                try:
                    import analyses as _A
                    if len(a.get('variants', [])) > 1:
                        for v in a['variants']:
                            _A.ENUM_DISCR[a['n'] + '::' + v['n']] = int(v['d'])
                except Exception:
                    pass
            self.impls = head['impls']
            for line in fh:
                # local items print as `crate::…`: qualify with the crate name
                d = json.loads(rx.sub(rep, line))
                if d.get('co') == 2:
                    _undo_state_transform(d)
                self.fns[d['n']] = Fn(d, name)


_loaded = {}


def load(fdir, crate):
    key = (fdir, crate)
    if key not in _loaded:
        cr = Crate(crate, os.path.join(fdir, crate + '.jsonl'), aliases=rename_map(fdir))
        apply_inlining(cr)
        _loaded[key] = cr
    return _loaded[key]


# ----------------------------------------------------------------------------------------------------------------
# Helper inlining.  The rules are written against the repository's function inventory (rules/inventory.json, the
# names of every function of the 13 library crates on the tree the rules were developed on).  A function that is not
# in the inventory is a helper somebody extracted later: for the analyses it is part of its callers, so its body is
# inlined at every call site inside its crate (to depth 3, recursion excluded).  The helper itself stays visible as a
# function of its own as well.  With an unchanged inventory nothing is inlined.

INVENTORY = os.path.join(VERIF, 'rules', 'inventory.json')
_inventory = None
_inv_sigs = {}


def inventory():
    global _inventory
    if _inventory is None:
        try:
            raw = json.load(open(INVENTORY))
            _inventory = {k: (set(v) if isinstance(v, list) else set(v.keys())) for k, v in raw.items()}
            _inv_sigs.clear()
            _inv_sigs.update({k: v for k, v in raw.items() if isinstance(v, dict)})
        except (OSError, ValueError):
            _inventory = {}
    return _inventory


_PROM = re.compile(r'promoted\[(\d+)\]')


def _rp(place, lo):
    return [place[0] + lo, [('[%d]' % (int(x[1:-1]) + lo) if isinstance(x, str) and re.fullmatch(r'\[\d+\]', x) else x) for x in place[1]]]


def _ro(op, lo, po):
    if op[0] == 'k':
        return ['k', _PROM.sub(lambda m: 'promoted[%d]' % (int(m.group(1)) + po), op[1])] if po and isinstance(op[1], str) else op
    return [op[0], _rp(op[1], lo)]


def _rrv(rv, lo, po):
    k = rv[0]
    if k in ('use', 'repeat'):
        return [k, _ro(rv[1], lo, po)]
    if k == 'ref':
        return [k, _rp(rv[1], lo)] + list(rv[2:])
    if k == 'bin':
        return [k, rv[1], _ro(rv[2], lo, po), _ro(rv[3], lo, po)]
    if k == 'un':
        return [k, rv[1], _ro(rv[2], lo, po)]
    if k == 'cast':
        return [k, _ro(rv[1], lo, po)] + list(rv[2:])
    if k in ('disc', 'len'):
        return [k, _rp(rv[1], lo)] + list(rv[2:])
    if k == 'agg':
        return [k, rv[1], [_ro(o, lo, po) for o in rv[2]]] + list(rv[3:])
    return list(rv)


def _rterm(t, lo, bo, po):
    k = t[0]

    def bb(x):
        return x + bo if isinstance(x, int) and x >= 0 else x
    if k == 'call':
        return ['call', t[1], t[2], [_ro(a, lo, po) for a in t[3]], _rp(t[4], lo), bb(t[5]), bb(t[6])] + list(t[7:])
    if k == 'sw':
        return ['sw', _ro(t[1], lo, po), [[v, bb(b_)] for v, b_ in t[2]], bb(t[3])] + list(t[4:])
    if k in ('goto', 'yield'):
        return [k, bb(t[1])]
    if k == 'drop':
        return ['drop', _rp(t[1], lo), t[2], bb(t[3]), bb(t[4])] + list(t[5:])
    if k == 'assert':
        out = ['assert', t[1], bb(t[2]), t[3]]
        if len(t) > 5:
            out += [_ro(t[4], lo, po), _ro(t[5], lo, po)]
        return out
    return list(t)


def _inline_into(d, callee_of, depth, stack):
    """returns a copy of fact dict d with calls to callee_of(name) (a dict name -> fact dict) inlined"""
    bbs = [dict(b, s=list(b['s'])) for b in d['bb']]
    locals_ = list(d['locals'])
    promoted = list(d.get('promoted', []))
    inlined = []
    i = 0
    n0 = len(bbs)   # the appended blocks are already inlined to depth-1: rescanning them would unroll recursion without bound
    while i < n0:
        t = bbs[i]['t']
        if t[0] == 'call' and not bbs[i]['cleanup']:
            g = callee_of.get(t[2])
            if g is not None and t[2] not in stack and depth > 0 and len(g['bb']) <= 400 and not g.get('co'):
                gd = _inline_into(g, callee_of, depth - 1, stack | {t[2]})
                lo, bo, po = len(locals_), len(bbs), len(promoted)
                locals_ += gd['locals']
                promoted += gd.get('promoted', [])
                line = t[7] if len(t) > 7 else d['l']
                for k_, a in enumerate(t[3]):
                    bbs[i]['s'].append([[lo + 1 + k_, []], ['use', a], line])
                dest, target = t[4], t[5]
                bbs[i]['t'] = ['goto', bo]
                for b in gd['bb']:
                    nb = {'s': [[_rp(st[0], lo), _rrv(st[1], lo, po)] + list(st[2:]) for st in b['s']], 'cleanup': b['cleanup'],
                          't': _rterm(b['t'], lo, bo, po)}
                    if nb['t'][0] == 'ret':
                        nb['s'].append([dest, ['use', ['m', [lo, []]]], line])
                        nb['t'] = ['goto', target] if isinstance(target, int) and target >= 0 else ['unreach']
                    bbs.append(nb)
                inlined.append(t[2])
                inlined += gd.get('inlined', [])
        i += 1
    nd = dict(d)
    nd['bb'], nd['locals'], nd['promoted'] = bbs, locals_, promoted
    nd['inlined'] = inlined
    return nd


def apply_inlining(crate):
    inv = inventory().get(crate.name)
    if not inv:
        return
    new = {n: f.d for n, f in crate.fns.items() if n not in inv and '{closure' not in n and not n.startswith('<') and not f.d.get('co')}
    if not new:
        return
    crate.extracted_helpers = sorted(new)
    crate.raw_fns = dict(crate.fns)
    called = set()
    for n, f in list(crate.fns.items()):
        if any(b['t'][0] == 'call' and b['t'][2] in new for b in f.bbs if not b['cleanup']):
            called |= {b['t'][2] for b in f.bbs if b['t'][0] == 'call' and b['t'][2] in new}
            nd = _inline_into(f.d, new, 3, {n})
            crate.fns[n] = Fn(nd, crate.name)
    # a helper that is now part of its callers is no longer a function of its own for the rules — unless some call to it
    # could not be inlined (recursion, depth), or nothing in the crate calls it (a new entry point)
    still = set()
    for n, f in crate.fns.items():
        for b in f.bbs:
            if b['t'][0] == 'call' and b['t'][2] in new and n not in new:
                still.add(b['t'][2])
    for h in called - still:
        crate.fns.pop(h, None)


def _h16(name):
    import zlib
    return zlib.crc32(name.encode()) & 0xffff


def _fn_sig(f, callers=()):
    """[signature hash, number of blocks, hashes of the callee names, hashes of the caller names] — enough to recognise a
    renamed / moved / re-signatured function"""
    import zlib
    sig = zlib.crc32('|'.join(f.locals[:f.argc + 1]).encode()) & 0xffffffff
    cs = sorted({_h16(b['t'][2]) for b in f.bbs if b['t'][0] == 'call' and not b['cleanup']})
    return [sig, len(f.bbs), cs, sorted({_h16(c) for c in callers})]


def _callers_of(fns):
    out = {}
    for n, f in fns.items():
        owner = re.sub(r'(::\{closure#\d+\})+$', '', n)
        for b in f.bbs:
            if b['t'][0] == 'call' and not b['cleanup']:
                out.setdefault(b['t'][2], set()).add(owner)
    return out


def write_inventory(fdir):
    inv = {}
    for c in LIB_CRATES:
        cr = Crate(c, os.path.join(fdir, c + '.jsonl'))
        callers = _callers_of(cr.fns)
        inv[c] = {n: _fn_sig(f, callers.get(n, ())) for n, f in sorted(cr.fns.items())}
    json.dump(inv, open(INVENTORY, 'w'), separators=(',', ':'))
    return sum(len(v) for v in inv.values())


# ----------------------------------------------------------------------------------------------------------------
# Renamed / moved functions.  An inventory function that is gone while a function that is not in the inventory has the same
# signature and (nearly) the same callees was renamed or moved: the facts are loaded with the new path spelled as the old one,
# so that the rules, which name functions by the paths of the development tree, keep seeing it.

_aliases = {}


def rename_map(fdir):
    if fdir in _aliases:
        return _aliases[fdir]
    inventory()
    amap = {}

    def jac(a, b):
        a, b = set(a), set(b)
        return (len(a & b) / float(len(a | b))) if (a | b) else None
    for c in LIB_CRATES:
        sigs = _inv_sigs.get(c)
        path = os.path.join(fdir, c + '.jsonl')
        if not sigs or not os.path.exists(path):
            continue
        cr = Crate(c, path)
        cur = {n: f for n, f in cr.fns.items() if '{closure' not in n}
        gone = [n for n in sigs if '{closure' not in n and n not in cur and not n.startswith('<')]
        newn = {n for n in cur if n not in sigs and not n.startswith('<')}
        if not gone or not newn:
            continue
        callers = _callers_of(cr.fns)

        def callees_through(n, depth=2, seen=None):
            """callee names of n, looking through functions that are new themselves (an extracted helper's callees are its caller's)"""
            seen = seen if seen is not None else set()
            out = set()
            if n in seen or n not in cr.fns:
                return out
            seen.add(n)
            for nn, f in cr.fns.items():
                if nn == n or nn.startswith(n + '::{closure'):
                    for b in f.bbs:
                        if b['t'][0] == 'call' and not b['cleanup']:
                            x = b['t'][2]
                            if x in newn and depth > 0:
                                out |= callees_through(x, depth - 1, seen)
                            else:
                                out.add(x)
            return out

        def callers_through(n, depth=2, seen=None):
            seen = seen if seen is not None else set()
            out = set()
            if n in seen:
                return out
            seen.add(n)
            for x in callers.get(n, ()):
                if x in newn and depth > 0:
                    out |= callers_through(x, depth - 1, seen)
                else:
                    out.add(x)
            return out
        # callee / caller names are compared through the aliases found so far (a renamed callee of a renamed caller)
        cand = {}
        for n in (newn if os.environ.get('NV_UNSORTED') else sorted(newn)):
            f = cur[n]
            import zlib
            cand[n] = (zlib.crc32('|'.join(f.locals[:f.argc + 1]).encode()) & 0xffffffff, len(f.bbs),
                       {_h16(x) for x in callees_through(n)}, {_h16(x) for x in callers_through(n)})
        taken = set()
        # the old side is looked through functions that are gone themselves, as the new side is looked through functions that are
        # new: both sides are then compared in terms of the functions that exist on both trees
        gone_h = {_h16(n): n for n in gone}

        def old_through(m0, idx, depth=2, seen=None):
            seen = seen if seen is not None else set()
            out = set()
            if m0 in seen:
                return out
            seen.add(m0)
            ent = sigs[m0]
            for h in (ent[idx] if len(ent) > idx else []):
                if h in gone_h and depth > 0:
                    out |= old_through(gone_h[h], idx, depth - 1, seen)
                else:
                    out.add(h)
            return out
        def through_size(n0):
            seen_, work_, tot = set(), [n0], 0
            while work_:
                x = work_.pop()
                if x in seen_ or x not in cur:
                    continue
                seen_.add(x)
                tot += len(cur[x].bbs)
                for bb in cur[x].bbs:
                    if bb['t'][0] == 'call' and bb['t'][2] in newn:
                        work_.append(bb['t'][2])
            return tot
        # score every (gone, new) pair once, then assign globally: the best-scoring pair first, so that a function that merely
        # vanished (merged into its caller) cannot take the successor of a function that was renamed
        score = {}
        for m_ in sorted(gone):
            ms = list(sigs[m_])
            ms[2] = old_through(m_, 2)
            mcallers = old_through(m_, 3)
            for n, ns in cand.items():
                ce, cr_ = jac(ms[2], ns[2]), jac(mcallers, ns[3])
                parts = [x for x in (ce, cr_) if x is not None]
                if not parts:
                    continue
                sc = sum(parts) / len(parts)
                if ns[0] == ms[0]:
                    sc += 0.15
                if n.rsplit('::', 1)[-1] == m_.rsplit('::', 1)[-1] or n.rsplit('::', 1)[0] == m_.rsplit('::', 1)[0]:
                    sc += 0.1
                if os.environ.get('NV_DEBUG_RENAME') == '2':
                    print('  SC', m_.rsplit('::', 1)[-1], n.rsplit('::', 1)[-1], round(sc, 3), ce, cr_, file=sys.stderr)
                score[(m_, n)] = sc
        open_m = set(gone)
        while open_m:
            pairs = sorted(((sc, m_, n) for (m_, n), sc in score.items() if m_ in open_m and n not in taken), key=lambda x: (-x[0], x[1], x[2]))
            if not pairs or pairs[0][0] < 0.6:
                break
            best_sc, m_, best = pairs[0]
            open_m.discard(m_)
            rest = [(sc, n) for sc, mm, n in pairs[1:] if mm == m_]
            second, second_n = rest[0] if rest else (0.0, None)
            if best_sc - second < 0.1 and second_n is not None:
                # two candidates look alike because one is a new wrapper around the other (an extracted caller, or a dispatcher
                # whose arms were split out): the renamed function is the one whose size, counted with the new helpers it
                # calls, is closest to the old function's
                d1, d2 = abs(through_size(best) - sigs[m_][1]), abs(through_size(second_n) - sigs[m_][1])
                if d2 * 2 < d1:
                    best, second = second_n, 0.0
                elif d1 * 2 < d2:
                    second = 0.0
            if os.environ.get('NV_DEBUG_RENAME'):
                print('RENAME', m_, '->', best, round(best_sc, 3), 'second', second_n, round(second, 3), file=sys.stderr)
            if best_sc - second >= 0.1:
                amap[best] = m_
                taken.add(best)
    _aliases[fdir] = amap
    return amap

