"""Fact extraction (drives the rustc_private driver) and fact loading."""
import fcntl, glob, hashlib, json, os, re, shutil, subprocess, sys, time

VERIF = os.path.dirname(os.path.dirname(os.path.abspath(__file__)))
REPO = os.environ.get('NV_REPO', '/repo')
CACHE = os.path.join(VERIF, '.cache')
DRIVER_DIR = os.path.join(VERIF, 'driver')
DRIVER = os.path.join(DRIVER_DIR, 'target', 'release', 'nvdriver')

# workspace library crates whose facts the rules use
LIB_CRATES = [
    'tensor_store', 'relational_engine', 'graph_engine', 'vector_engine',
    'query_router', 'neumann_parser', 'tensor_compress', 'tensor_vault',
    'tensor_cache', 'tensor_blob', 'tensor_unified', 'tensor_checkpoint',
    'tensor_chain',
]


def _env():
    e = dict(os.environ)
    e['CARGO_NET_OFFLINE'] = 'true'
    return e


def nightly_sysroot():
    return subprocess.check_output(['rustc', '+nightly', '--print', 'sysroot'], env=_env(), text=True).strip()


def build_driver():
    subprocess.check_call(['cargo', 'build', '--release', '--offline'], cwd=DRIVER_DIR, env=_env())
    assert os.path.exists(DRIVER)


def tree_hash():
    """sha256 over every source file that can influence the facts."""
    h = hashlib.sha256()
    files = []
    skip = {'target', '.git', 'node_modules', 'docs', 'fuzz', 'neumann-py', 'neumann-ts'}
    for root, dirs, fs in os.walk(REPO):
        dirs[:] = sorted(d for d in dirs if d not in skip)
        for f in sorted(fs):
            if f.endswith('.rs') or f in ('Cargo.toml', 'Cargo.lock', 'build.rs') or f.endswith('.proto'):
                files.append(os.path.join(root, f))
    for p in files:
        h.update(p.encode())
        try:
            with open(p, 'rb') as fh:
                h.update(fh.read())
        except OSError:
            pass
    with open(os.path.join(DRIVER_DIR, 'src', 'main.rs'), 'rb') as fh:
        h.update(fh.read())
    return h.hexdigest()[:24]


def workspace_member_names():
    out = subprocess.check_output(
        ['cargo', 'metadata', '--offline', '--no-deps', '--format-version', '1'], cwd=REPO, env=_env(), text=True)
    return [p['name'] for p in json.loads(out)['packages']]


def ensure_facts(verbose=True):
    """Return the directory holding <crate>.jsonl for /repo's current tree,
    extracting if the cache has no entry for this tree hash."""
    os.makedirs(CACHE, exist_ok=True)
    lock = open(os.path.join(CACHE, 'lock'), 'w')
    fcntl.flock(lock, fcntl.LOCK_EX)
    try:
        if not os.path.exists(DRIVER) or os.path.getmtime(DRIVER) < os.path.getmtime(os.path.join(DRIVER_DIR, 'src', 'main.rs')):
            build_driver()
        th = tree_hash()
        fdir = os.path.join(CACHE, 'facts', th)
        if os.path.exists(os.path.join(fdir, 'OK')):
            return fdir, th, 0.0
        t0 = time.time()
        if os.path.exists(fdir):
            shutil.rmtree(fdir)
        os.makedirs(fdir)
        target = os.path.join(CACHE, 'target')
        # cargo's freshness cache would skip the wrapper: drop members' fingerprints
        members = workspace_member_names()
        for prof in glob.glob(os.path.join(target, '*', '.fingerprint')):
            for m in members:
                for d in glob.glob(os.path.join(prof, m + '-*')) + glob.glob(os.path.join(prof, m.replace('_', '-') + '-*')):
                    shutil.rmtree(d, ignore_errors=True)
        e = _env()
        e['LD_LIBRARY_PATH'] = nightly_sysroot() + '/lib'
        e['RUSTFLAGS'] = '-Zmir-opt-level=0 -Awarnings'
        e['RUSTC_WORKSPACE_WRAPPER'] = DRIVER
        e['CARGO_TARGET_DIR'] = target
        e['NV_FACTS_DIR'] = fdir
        e['NV_CRATES'] = ','.join(LIB_CRATES)
        e['NV_WORKSPACE'] = ','.join(LIB_CRATES)
        cmd = ['cargo', '+nightly', 'check', '--offline', '--lib']
        for c in LIB_CRATES:
            cmd += ['-p', c]
        r = subprocess.run(cmd, cwd=REPO, env=e, stdout=subprocess.PIPE, stderr=subprocess.STDOUT, text=True)
        if r.returncode != 0:
            sys.stderr.write(r.stdout[-6000:])
            shutil.rmtree(fdir, ignore_errors=True)
            raise SystemExit('nv: fact extraction failed (cargo check returned %d)' % r.returncode)
        missing = [c for c in LIB_CRATES if not os.path.exists(os.path.join(fdir, c + '.jsonl'))]
        if missing:
            shutil.rmtree(fdir, ignore_errors=True)
            raise SystemExit('nv: fact extraction wrote no facts for: %s' % missing)
        open(os.path.join(fdir, 'OK'), 'w').write(th)
        # keep only the three most recent fact sets
        allsets = sorted(glob.glob(os.path.join(CACHE, 'facts', '*')), key=os.path.getmtime)
        for old in allsets[:-3]:
            shutil.rmtree(old, ignore_errors=True)
        dt = time.time() - t0
        if verbose:
            print('nv: extracted facts for %d crates in %.1fs -> %s' % (len(LIB_CRATES), dt, fdir))
        return fdir, th, dt
    finally:
        fcntl.flock(lock, fcntl.LOCK_UN)
        lock.close()


def _undo_state_transform(d):
    """A coroutine body whose pre-transform MIR was no longer available: the state machine's entry
    dispatch jumps straight to every resume point, which would let every path skip what precedes
    an await. Rebuild the source-level CFG: entry -> start arm; `discriminant = k; return` -> resume arm k."""
    bbs = d['bb']
    if not bbs or bbs[0]['t'][0] != 'sw':
        return
    t0 = bbs[0]['t']
    arms = {int(v): b for v, b in t0[2]}
    if 0 not in arms:
        return
    for b in bbs:
        k = None
        for st in b['s']:
            if st[1][0] == 'setdisc' and st[0][0] == 1:
                k = st[1][1]
        if k is not None and b['t'][0] == 'ret' and k in arms and k >= 3:
            b['t'] = ['yield', arms[k]]
    bbs[0]['t'] = ['goto', arms[0]]
    d['co'] = 3


class Fn:
    __slots__ = ('d', 'name', 'crate', 'bbs', '_succ', '_pred')

    def __init__(self, d, crate):
        self.d = d
        self.name = d['n']
        self.crate = crate
        self.bbs = d['bb']
        self._succ = None
        self._pred = None

    @property
    def file(self):
        return self.d['f']

    @property
    def line(self):
        return self.d['l']

    @property
    def locals(self):
        return self.d['locals']

    @property
    def argc(self):
        return self.d['argc']

    def loc(self, line=None):
        return '%s:%s' % (self.file, line if line is not None else self.line)


class Crate:
    def __init__(self, name, path):
        self.name = name
        self.fns = {}
        self.adts = {}
        self.impls = []
        rx0 = re.compile(r'(?<![A-Za-z0-9_])crate::')
        # impl<'a> Parser<'a> methods print as `Parser::<'a>::f`: drop lifetime-only generic segments
        rlt = re.compile(r"::<'\w+(?:, '\w+)*>")
        rep = name + '::'

        class _Rx:
            @staticmethod
            def sub(r, line):
                return rlt.sub('', rx0.sub(r, line))
        rx = _Rx
        with open(path) as fh:
            head = json.loads(rx.sub(rep, fh.readline()))
            for a in head['adts']:
                self.adts[a['n']] = a
            self.impls = head['impls']
            for line in fh:
                # local items print as `crate::…`: qualify with the crate name
                d = json.loads(rx.sub(rep, line))
                if d.get('co') == 2:
                    _undo_state_transform(d)
                self.fns[d['n']] = Fn(d, name)


_loaded = {}


def load(fdir, crate):
    key = (fdir, crate)
    if key not in _loaded:
        _loaded[key] = Crate(crate, os.path.join(fdir, crate + '.jsonl'))
    return _loaded[key]
