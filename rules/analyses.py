"""Classic analyses over the extracted MIR facts (see DESIGN §1, A1–A11).

A function is facts.Fn; blocks are dicts {"s":[stmt..],"cleanup":0/1,"t":term}.
stmt  = [place, rvalue, line]        place = [local, [proj..]]
term  = ["call", generic, resolved, [args], dest_place, target, unwind, line, exp, generic_args]
        ["drop", place, ty, target, unwind, line]
        ["sw", operand, [[value, bb]..], otherwise, line]
        ["goto", bb] ["ret"] ["assert", kind, target, line] ["yield", bb]
        ["unreach"] ["resume"] ["other"]
operand = ["c"|"m", place] | ["k", const_text]
A position is (bb, i): i < len(stmts) is a statement, i == len(stmts) the terminator.
"""
import collections, re

# ----------------------------------------------------------------------------
# CFG basics


def term(fn, b):
    return fn.bbs[b]['t']


def succ_edges(fn, b, unwind=False):
    """[(succ, label)]; label: 'n' normal, 'u' unwind, ('sw', value|'otherwise')."""
    t = fn.bbs[b]['t']
    k = t[0]
    r = []
    if k == 'call':
        if t[5] is not None and t[5] >= 0:
            r.append((t[5], 'n'))
        if unwind and t[6] >= 0:
            r.append((t[6], 'u'))
    elif k == 'drop':
        r.append((t[3], 'n'))
        if unwind and t[4] >= 0:
            r.append((t[4], 'u'))
    elif k == 'sw':
        for v, bb in t[2]:
            r.append((bb, ('sw', v)))
        r.append((t[3], ('sw', 'otherwise')))
    elif k in ('goto', 'yield'):
        r.append((t[1], 'n'))
    elif k == 'assert':
        r.append((t[2], 'n'))
    return r


def succs(fn, b, unwind=False):
    return [s for s, _ in succ_edges(fn, b, unwind)]


def preds_map(fn, unwind=False):
    p = collections.defaultdict(list)
    for b in range(len(fn.bbs)):
        for s in succs(fn, b, unwind):
            p[s].append(b)
    return p


def return_blocks(fn):
    return [i for i, b in enumerate(fn.bbs) if b['t'][0] == 'ret' and not b['cleanup']]


def reachable(fn, starts, cut_blocks=(), cut_edges=(), unwind=False, _plain=False):
    """Blocks reachable from `starts` (inclusive) without entering cut_blocks
    or taking cut_edges ((a, b) pairs)."""
    if not _plain and not unwind and getattr(fn, 'd', {}).get('inlined'):
        # a helper's body was inlined here: its failure exits join its success exits at the old call site, and only the
        # value tells them apart — follow variants / constants so that `helper()?` keeps its two outcomes apart
        return reachable_cp(fn, starts, cut_edges=cut_edges, cut_blocks=cut_blocks)
    cut_blocks = set(cut_blocks)
    cut_edges = set(cut_edges)
    seen = set()
    work = [s for s in starts if s not in cut_blocks]
    while work:
        b = work.pop()
        if b in seen:
            continue
        seen.add(b)
        for s in succs(fn, b, unwind):
            if s in cut_blocks or (b, s) in cut_edges or s in seen:
                continue
            work.append(s)
    return seen


def dominators(fn, unwind=False, entry=0):
    """dom[b] = set of blocks dominating b (blocks unreachable from entry get the full set)."""
    n = len(fn.bbs)
    preds = preds_map(fn, unwind)
    reach = reachable(fn, [entry], unwind=unwind)
    order = _rpo(fn, entry, unwind)
    full = set(range(n))
    dom = [full for _ in range(n)]
    dom[entry] = {entry}
    changed = True
    while changed:
        changed = False
        for b in order:
            if b == entry:
                continue
            ps = [dom[p] for p in preds[b] if p in reach]
            new = (set.intersection(*ps) if ps else set()) | {b}
            if new != dom[b]:
                dom[b] = new
                changed = True
    return dom


def _rpo(fn, entry, unwind):
    seen, out = set(), []
    stack = [(entry, iter(succs(fn, entry, unwind)))]
    seen.add(entry)
    while stack:
        b, it = stack[-1]
        adv = False
        for s in it:
            if s not in seen:
                seen.add(s)
                stack.append((s, iter(succs(fn, s, unwind))))
                adv = True
                break
        if not adv:
            out.append(b)
            stack.pop()
    out.reverse()
    return out


def postdominators(fn, exits=None, unwind=False):
    """pdom[b] = blocks that lie on every path from b to an exit (exits default:
    non-cleanup return blocks). Blocks that cannot reach an exit get the full set."""
    n = len(fn.bbs)
    if exits is None:
        exits = return_blocks(fn)
    exits = set(exits)
    preds = preds_map(fn, unwind)
    # blocks that can reach an exit
    can = set()
    work = list(exits)
    while work:
        b = work.pop()
        if b in can:
            continue
        can.add(b)
        work.extend(preds[b])
    full = set(range(n))
    pdom = [full for _ in range(n)]
    for e in exits:
        pdom[e] = {e}
    changed = True
    while changed:
        changed = False
        for b in range(n - 1, -1, -1):
            if b in exits or b not in can:
                continue
            ss = [pdom[s] for s in succs(fn, b, unwind) if s in can]
            new = (set.intersection(*ss) if ss else set()) | {b}
            if new != pdom[b]:
                pdom[b] = new
                changed = True
    return pdom


def control_deps(fn, unwind=False, pdom=None):
    """cd[x] = set of (a, s) edges x is control dependent on: x post-dominates s
    and does not strictly post-dominate a. Blocks that cannot reach a return are
    left out (their post-dominator sets are vacuous)."""
    n = len(fn.bbs)
    pdom = pdom or postdominators(fn, unwind=unwind)
    full = set(range(n))
    cd = collections.defaultdict(set)
    for a in range(n):
        ss = set(succs(fn, a, unwind))
        if len(ss) < 2:
            continue
        for s in ss:
            if n > 1 and pdom[s] == full:
                continue
            for x in pdom[s]:
                if not (x in pdom[a] and x != a and pdom[a] != full):
                    cd[x].add((a, s))
    return cd


# ----------------------------------------------------------------------------
# events


class Call:
    __slots__ = ('bb', 'generic', 'resolved', 'args', 'dest', 'target', 'unwind', 'line', 'exp', 'ga')

    def __init__(self, bb, t):
        self.bb = bb
        self.generic, self.resolved, self.args, self.dest = t[1], t[2], t[3], t[4]
        self.target, self.unwind, self.line, self.exp = t[5], t[6], t[7], t[8]
        self.ga = t[9] if len(t) > 9 else ''

    def arg_local(self, i):
        if i < len(self.args) and self.args[i][0] in ('c', 'm'):
            return self.args[i][1][0]
        return None

    def __repr__(self):
        return 'Call(bb%d %s @%d)' % (self.bb, self.resolved, self.line)


def calls(fn, cleanup=False):
    for i, b in enumerate(fn.bbs):
        if b['cleanup'] and not cleanup:
            continue
        if b['t'][0] == 'call':
            yield Call(i, b['t'])


def name_matches(name, pat):
    """pat: exact string, or ('suffix', s) / ('re', regex) / callable."""
    if isinstance(pat, str):
        return name == pat or name.endswith('::' + pat)
    if callable(pat):
        return pat(name)
    k, v = pat
    if k == 'suffix':
        return name.endswith(v)
    if k == 're':
        return re.search(v, name) is not None
    raise ValueError(pat)


def calls_to(fn, pat, cleanup=False):
    return [c for c in calls(fn, cleanup) if name_matches(c.resolved, pat) or name_matches(c.generic, pat)]


def place_fields(place):
    """Field names ('Adt.field') along a place's projection."""
    return [p for p in place[1] if isinstance(p, str) and '.' in p and not p.startswith('as ')]


def operand_place(op):
    return op[1] if op[0] in ('c', 'm') else None


def rvalue_operands(rv):
    k = rv[0]
    if k in ('use', 'un', 'repeat'):
        return [rv[-1]] if k != 'un' else [rv[2]]
    if k == 'cast':
        return [rv[1]]
    if k == 'bin':
        return [rv[2], rv[3]]
    if k == 'agg':
        return list(rv[2])
    return []


def rvalue_places(rv):
    """Places read by an rvalue (ref/disc read the place's base)."""
    k = rv[0]
    if k in ('ref', 'disc'):
        return [rv[1]]
    return [op[1] for op in rvalue_operands(rv) if op[0] in ('c', 'm')]


def field_writes(fn, cleanup=False):
    """Direct MIR writes to places with a field projection.
    Yields (bb, idx, field, place, rvalue_or_None, line). Call destinations count."""
    for i, b in enumerate(fn.bbs):
        if b['cleanup'] and not cleanup:
            continue
        for j, st in enumerate(b['s']):
            fs = place_fields(st[0])
            if fs:
                yield i, j, fs[-1], st[0], st[1], st[2]
        t = b['t']
        if t[0] == 'call':
            fs = place_fields(t[4])
            if fs:
                yield i, len(b['s']), fs[-1], t[4], None, t[7]


def field_mut_borrows(fn, cleanup=False):
    """`&mut place.field…` borrows (the way Vec::push(&mut self.log, …) mutates a field).
    Yields (bb, idx, [fields along the place], dest_local, line)."""
    for i, b in enumerate(fn.bbs):
        if b['cleanup'] and not cleanup:
            continue
        for j, st in enumerate(b['s']):
            rv = st[1]
            if rv[0] == 'ref' and rv[2] in (1, 2):
                fs = place_fields(rv[1])
                if fs:
                    yield i, j, fs, st[0][0], st[2]


def field_reads(fn, cleanup=False):
    """All field names read anywhere in the function (statements, call args, switches)."""
    out = collections.Counter()
    for i, b in enumerate(fn.bbs):
        if b['cleanup'] and not cleanup:
            continue
        for st in b['s']:
            for p in rvalue_places(st[1]):
                for f in place_fields(p):
                    out[f] += 1
            # reading through the destination's base when the dest has a deref+field is a write, not read
        t = b['t']
        if t[0] == 'call':
            for a in t[3]:
                if a[0] in ('c', 'm'):
                    for f in place_fields(a[1]):
                        out[f] += 1
        elif t[0] == 'sw' and t[1][0] in ('c', 'm'):
            for f in place_fields(t[1][1]):
                out[f] += 1
    return out


# ----------------------------------------------------------------------------
# definitions / slices (A4)


DEREF_LIKE = re.compile(r'(DerefMut::deref_mut|IndexMut::index_mut|AsMut::as_mut|::as_mut|::as_mut_slice|::get_mut|::iter_mut|::unwrap|::expect|::last_mut|::first_mut)$')


class Defs:
    """def map for one function: local -> [(bb, idx, kind, payload)]
    kind 'st' (payload rvalue), 'call' (payload Call), 'callmut' (call that received
    a &mut/& to this local's alias class)."""

    def __init__(self, fn):
        self.fn = fn
        self.defs = collections.defaultdict(list)
        self.ref_of = {}  # local -> (place, mut) when local = &place (single def)
        for i, b in enumerate(fn.bbs):
            if b['cleanup']:
                continue
            for j, st in enumerate(b['s']):
                self.defs[st[0][0]].append((i, j, 'st', st))
                if st[1][0] == 'ref' and not st[0][1]:
                    self.ref_of.setdefault(st[0][0], []).append((st[1][1], st[1][2]))
            t = b['t']
            if t[0] == 'call':
                c = Call(i, t)
                self.defs[c.dest[0]].append((i, len(b['s']), 'call', c))
        # calls that may write through reference arguments
        for i, b in enumerate(fn.bbs):
            if b['cleanup']:
                continue
            t = b['t']
            if t[0] != 'call':
                continue
            c = Call(i, t)
            for a in c.args:
                if a[0] not in ('c', 'm'):
                    continue
                l = a[1][0]
                for tgt in self.ref_targets(l):
                    self.defs[tgt].append((i, len(b['s']), 'callmut', c))

    def ref_targets(self, l, depth=0, seen=None):
        """Locals that `l` may point into through a *mutable* borrow chain."""
        out = set()
        if depth > 6:
            return out
        for place, mut in self.ref_of.get(l, []):
            if mut in (1, 2):
                out.add(place[0])
                # &mut (*x).f : x itself is a reference; writing through it changes x's referent
                out |= self.ref_targets(place[0], depth + 1)
        # l = deref_mut(&mut g) / index_mut(..) / as_mut(..): points into arg0's referent
        for (_, _, k, p) in self.defs.get(l, []):
            if k == 'call' and DEREF_LIKE.search(p.generic) and 'mut' in self.fn.locals[l][:5]:
                a = p.arg_local(0)
                if a is not None and a != l:
                    out |= self.ref_targets(a, depth + 1)
        # l = move other  (reborrow/move of a &mut)
        for (_, _, k, p) in self.defs.get(l, []):
            if k == 'st' and p[1][0] == 'use' and p[1][1][0] in ('c', 'm') and not p[1][1][1][1]:
                src = p[1][1][1][0]
                if src != l and 'mut' in self.fn.locals[src][:5]:
                    out |= self.ref_targets(src, depth + 1)
        return out


ERR_ONLY = re.compile(r'::(map_err|ok_or_else|ok_or|inspect_err|with_context|context)$')


class Slice:
    def __init__(self):
        self.locals = set()
        self.fields = set()      # every 'Adt.field' read on the way
        self.calls = set()       # resolved callee names
        self.consts = set()
        self.params = set()      # argument locals reached (1..argc)
        self.param_fields = set()  # (param local, field) pairs
        self.binops = set()
        self.closures = set()    # names of closure bodies built on the way

    def __repr__(self):
        return 'Slice(fields=%s calls=%s params=%s)' % (sorted(self.fields), sorted(self.calls), sorted(self.params))


def backward_slice(fn, start_ops, defs=None, cut_calls=(), max_nodes=4000, cd=None):
    """Flow-insensitive backward data-dependence slice from operands / locals.
    start_ops: iterable of operands (['c'|'m', place] / ['k', ..]) or ints (locals).
    cut_calls: name patterns; a call to one of them stops the walk (sanitizer)."""
    defs = defs or Defs(fn)
    sl = Slice()
    work = []

    def add_place(place):
        for f in place_fields(place):
            sl.fields.add(f)
        l = place[0]
        if 1 <= l <= fn.argc:
            sl.params.add(l)
            for f in place_fields(place):
                sl.param_fields.add((l, f))
        for p in place[1]:
            if isinstance(p, str) and p.startswith('[') and p != '[]':
                try:
                    work.append(int(p[1:-1]))
                except ValueError:
                    pass
        work.append(l)

    def add_op(op):
        if isinstance(op, int):
            work.append(op)
        elif op[0] == 'k':
            sl.consts.add(op[1])
        else:
            add_place(op[1])

    for o in start_ops:
        add_op(o)
    while work and len(sl.locals) < max_nodes:
        l = work.pop()
        if l in sl.locals:
            continue
        sl.locals.add(l)
        if 1 <= l <= fn.argc:
            sl.params.add(l)
        dl = defs.defs.get(l, [])
        if cd is not None and len([d for d in dl if d[2] != 'callmut']) >= 2:
            # merge of several definitions (`a || b`, `if c {x} else {y}`): the value also
            # depends on the tests that choose between them
            for (dbb, _, _, _) in dl:
                for (a, _s) in cd.get(dbb, ()):
                    t = fn.bbs[a]['t']
                    if t[0] == 'sw':
                        add_op(t[1])
        for (_, _, k, p) in dl:
            if k == 'st':
                rv = p[1]
                if rv[0] == 'bin':
                    sl.binops.add(rv[1])
                if rv[0] == 'agg' and '{closure' in rv[1]:
                    sl.closures.add(rv[1])
                if rv[0] in ('ref', 'disc'):
                    add_place(rv[1])
                for op in rvalue_operands(rv):
                    add_op(op)
                # a write to a projection of l also reads l's base — nothing more to add
            else:
                c = p
                if any(name_matches(c.resolved, pat) for pat in cut_calls):
                    sl.calls.add(c.resolved)
                    continue
                sl.calls.add(c.resolved)
                if ERR_ONLY.search(c.generic):
                    # map_err / ok_or_else / inspect_err: the closure only builds the error value;
                    # the Ok/Some payload that flows on depends on the receiver alone
                    if c.args:
                        add_op(c.args[0])
                    continue
                for a in c.args:
                    add_op(a)
    return sl


def single_def(defs, l):
    ds = [d for d in defs.defs.get(l, []) if d[2] != 'callmut']
    return ds[0] if len(ds) == 1 else None


def origin_fields(fn, local, defs=None, depth=12, stop_at=()):
    """Follow single-def chains (use / ref / deref-like calls on arg0) from `local`
    back to the place it was borrowed from; returns the list of field names on that
    chain, outermost first (e.g. ['RaftNode.persistent']), plus the root local."""
    defs = defs or Defs(fn)
    fields = []
    l = local
    for _ in range(depth):
        if l in stop_at:
            break
        d = single_def(defs, l)
        if d is None:
            break
        _, _, k, p = d
        if k == 'st':
            rv = p[1]
            if rv[0] in ('ref',):
                fields = place_fields(rv[1]) + fields
                l = rv[1][0]
            elif rv[0] in ('use', 'cast'):
                op = rv[1]
                if op[0] == 'k':
                    break
                fields = place_fields(op[1]) + fields
                l = op[1][0]
            else:
                break
        else:
            c = p
            if re.search(r'(Deref(Mut)?::deref(_mut)?|AsRef::as_ref|Borrow::borrow|Arc<.*>::as_ref|::clone|Option<.*>::as_ref|Option<.*>::as_mut|::unwrap|::expect|Try::branch|::lock|::read|::write)$', c.generic) or \
               re.search(r'(deref|deref_mut|as_ref|as_mut|clone|unwrap|expect|branch)$', c.resolved):
                a = c.arg_local(0)
                if a is None:
                    break
                fields = place_fields(c.args[0][1]) + fields
                l = a
            else:
                break
    return fields, l


# ----------------------------------------------------------------------------
# guards (A3)

GUARD_RE = re.compile(r'^(parking_lot::lock_api::|lock_api::|std::sync::|std::sync::poison::\w+::|tokio::sync::\w*:*|tokio::sync::)?(MutexGuard|RwLockReadGuard|RwLockWriteGuard|OwnedMutexGuard|OwnedRwLockReadGuard|OwnedRwLockWriteGuard|MappedMutexGuard|MappedRwLockReadGuard|MappedRwLockWriteGuard|RwLockUpgradableReadGuard|ArcMutexGuard|ArcRwLockWriteGuard|ArcRwLockReadGuard)<')


def is_guard_type(ty):
    return GUARD_RE.match(ty) is not None


def guard_kind(ty):
    m = GUARD_RE.match(ty)
    return m.group(2) if m else None


class Guard:
    __slots__ = ('local', 'ty', 'acq', 'acq_calls', 'lock_fields', 'root', 'kills')

    def __repr__(self):
        return 'Guard(_%d %s lock=%s acq=%s)' % (self.local, guard_kind(self.ty), self.lock_fields, self.acq)


def guards(fn, defs=None):
    """Lock guards held in locals: acquisition positions, lock identity, kill positions."""
    defs = defs or Defs(fn)
    out = []
    for l, ty in enumerate(fn.locals):
        if not is_guard_type(ty):
            continue
        g = Guard()
        g.local, g.ty = l, ty
        g.acq = []
        g.acq_calls = []
        g.lock_fields, g.root = [], None
        for (bb, idx, k, p) in defs.defs.get(l, []):
            if k == 'call':
                g.acq.append((bb, idx))
                g.acq_calls.append((bb, idx))
                a = p.arg_local(0)
                if a is not None and not g.lock_fields:
                    fs, root = origin_fields(fn, a, defs)
                    fs = place_fields(p.args[0][1]) + fs if False else fs
                    g.lock_fields, g.root = fs, root
            elif k == 'st':
                # moved from another local (e.g. unwrap result moved into a named binding)
                g.acq.append((bb, idx))
                rv = p[1]
                if rv[0] == 'use' and rv[1][0] in ('c', 'm') and not g.lock_fields:
                    fs, root = origin_fields(fn, rv[1][1][0], defs)
                    g.lock_fields, g.root = place_fields(rv[1][1]) + fs, root
        if not any('.' in x for x in g.lock_fields) and g.root is not None:
            # the lock came out of an accessor (`self.stripe_for(key).write()`): name it after the accessor
            d = single_def(defs, g.root)
            if d and d[2] == 'call' and re.search(r'(Mutex|RwLock)<', fn.locals[g.root]):
                g.lock_fields = [d[3].resolved + '.<returned lock>']
        if True:
            # the guard is the return value of a workspace function that acquires the lock and returns with it held
            # (`let _g = lock_chunk(&key)`): name the lock after that wrapper
            for (bb, idx, k, p) in defs.defs.get(l, []):
                if k == 'call' and re.match(r'(tensor_|relational_engine|graph_engine|vector_engine|query_router|neumann_)\w*::', p.resolved) \
                        and not re.search(r'::(lock|read|write|try_lock|try_read|try_write|upgradable_read)$', p.resolved):
                    g.lock_fields = [p.resolved + '.<returned guard>']
                    break
        g.kills = []
        for i, b in enumerate(fn.bbs):
            if b['cleanup']:
                continue
            for j, st in enumerate(b['s']):
                rv = st[1]
                for op in rvalue_operands(rv):
                    if op[0] == 'm' and op[1][0] == l and not op[1][1]:
                        g.kills.append((i, j))
            t = b['t']
            if t[0] == 'drop' and t[1][0] == l and not t[1][1]:
                g.kills.append((i, len(b['s'])))
            elif t[0] == 'call':
                for a in t[3]:
                    if a[0] == 'm' and a[1][0] == l and not a[1][1]:
                        g.kills.append((i, len(b['s'])))
        if g.acq:
            out.append(g)
    return out


def live_positions(fn, gens, kills, must=False):
    """Forward dataflow of one boolean fact over positions.
    gens/kills: sets of positions (bb, idx); the fact becomes true *after* a gen
    position and false *after* a kill position. Returns in_state per block (bool)
    with may (union) or must (intersection) merging; use live_at() for positions."""
    n = len(fn.bbs)
    gens_by = collections.defaultdict(list)
    kills_by = collections.defaultdict(list)
    for b, i in gens:
        gens_by[b].append(i)
    for b, i in kills:
        kills_by[b].append(i)

    def transfer(b, s):
        ev = [(i, 1) for i in gens_by.get(b, [])] + [(i, 0) for i in kills_by.get(b, [])]
        for _, v in sorted(ev):
            s = bool(v)
        return s

    preds = preds_map(fn)
    reach = reachable(fn, [0])
    ins = {b: (must and b != 0) for b in range(n)}
    ins[0] = False
    changed = True
    while changed:
        changed = False
        for b in range(n):
            if b not in reach or b == 0:
                continue
            ps = [transfer(p, ins[p]) for p in preds[b] if p in reach]
            if not ps:
                new = False
            else:
                new = all(ps) if must else any(ps)
            if new != ins[b]:
                ins[b] = new
                changed = True
    return ins, gens_by, kills_by


def live_at(ins_tuple, pos):
    ins, gens_by, kills_by = ins_tuple
    b, i = pos
    s = ins[b]
    ev = [(j, 1) for j in gens_by.get(b, []) if j < i] + [(j, 0) for j in kills_by.get(b, []) if j < i]
    for _, v in sorted(ev):
        s = bool(v)
    return s


def guard_live_at(fn, g, pos, must=True):
    return live_at(live_positions(fn, g.acq, g.kills, must=must), pos)


# ----------------------------------------------------------------------------
# call graph (A7)


class CallGraph:
    def __init__(self, crates):
        """crates: iterable of facts.Crate"""
        self.fns = {}
        self.edges = collections.defaultdict(set)
        self.redges = collections.defaultdict(set)
        self.sites = collections.defaultdict(list)  # (caller, callee) -> [Call]
        self.trait_impls = collections.defaultdict(set)  # trait item -> impl items
        for cr in crates:
            for n, f in cr.fns.items():
                self.fns[n] = f
            for im in cr.impls:
                for ti, ii in im['items'].items():
                    self.trait_impls[ti].add(ii)
        for n, f in self.fns.items():
            for c in calls(f):
                tgts = [c.resolved]
                if c.resolved not in self.fns and c.resolved in self.trait_impls:
                    tgts = [t for t in self.trait_impls[c.resolved]] or tgts
                for t in tgts:
                    self.edges[n].add(t)
                    self.redges[t].add(n)
                    self.sites[(n, t)].append(c)
                # closures / fn items passed as arguments
            for b in f.bbs:
                if b['cleanup']:
                    continue
                for st in b['s']:
                    rv = st[1]
                    if rv[0] == 'agg' and (rv[1].startswith('closure:') or rv[1].startswith('coroutine:')):
                        t = rv[1].split(':', 1)[1]
                        self.edges[n].add(t)
                        self.redges[t].add(n)
                    # function items used as values: `map(Self::helper)`
                    for op in rvalue_operands(rv):
                        if op[0] == 'k' and op[1] in self.fns:
                            self.edges[n].add(op[1])
                            self.redges[op[1]].add(n)
                if b['t'][0] == 'call':
                    for a in b['t'][3]:
                        if a[0] == 'k':
                            nm = a[1]
                            if nm in self.fns:
                                self.edges[n].add(nm)
                                self.redges[nm].add(n)

    def reach(self, starts, cut=()):
        cut = set(cut)
        seen = set()
        work = [s for s in starts]
        while work:
            f = work.pop()
            if f in seen or f in cut:
                continue
            seen.add(f)
            work.extend(self.edges.get(f, ()))
        return seen

    def path(self, start, goal_pred, cut=()):
        """Shortest call path from start to a function satisfying goal_pred."""
        cut = set(cut)
        prev = {start: None}
        q = collections.deque([start])
        while q:
            f = q.popleft()
            if f != start and goal_pred(f):
                p = []
                while f is not None:
                    p.append(f)
                    f = prev[f]
                return p[::-1]
            for t in sorted(self.edges.get(f, ())):
                if t not in prev and t not in cut:
                    prev[t] = f
                    q.append(t)
        return None

    def sccs(self, nodes):
        """Tarjan over the subgraph induced by `nodes`; returns components with a cycle."""
        nodes = set(nodes)
        index, low, onstack, stack, out = {}, {}, set(), [], []
        counter = [0]
        for root in sorted(nodes):
            if root in index:
                continue
            work = [(root, iter(sorted(t for t in self.edges.get(root, ()) if t in nodes)))]
            index[root] = low[root] = counter[0]
            counter[0] += 1
            stack.append(root)
            onstack.add(root)
            while work:
                v, it = work[-1]
                adv = False
                for w in it:
                    if w not in index:
                        index[w] = low[w] = counter[0]
                        counter[0] += 1
                        stack.append(w)
                        onstack.add(w)
                        work.append((w, iter(sorted(t for t in self.edges.get(w, ()) if t in nodes))))
                        adv = True
                        break
                    elif w in onstack:
                        low[v] = min(low[v], index[w])
                if adv:
                    continue
                work.pop()
                if work:
                    u = work[-1][0]
                    low[u] = min(low[u], low[v])
                if low[v] == index[v]:
                    comp = []
                    while True:
                        w = stack.pop()
                        onstack.discard(w)
                        comp.append(w)
                        if w == v:
                            break
                    if len(comp) > 1 or v in self.edges.get(v, ()):
                        out.append(sorted(comp))
        return out


def parent_fn(name):
    """`a::b::{closure#0}::{closure#1}` -> `a::b`"""
    return re.sub(r'(::\{(closure|coroutine|async_block|async_fn_body)#\d+\})+$', '', name)


def with_closures(crate_fns, name):
    """The function and all closure / async bodies nested in it."""
    pres = [name + '::{']
    f0 = crate_fns.get(name)
    # helpers that were inlined into this function (facts.apply_inlining): their closures belong to it as well
    for h in (f0.d.get('inlined', []) if f0 is not None else []):
        pres.append(h + '::{')
    # a closure body may itself have helpers inlined
    out = [f for n, f in crate_fns.items() if n == name or any(n.startswith(p) for p in pres)]
    for g in list(out):
        for h in g.d.get('inlined', []):
            for n, f in crate_fns.items():
                if n.startswith(h + '::{') and f not in out:
                    out.append(f)
    return out


# ----------------------------------------------------------------------------
# switch helpers


def switch_on_call_result(fn, defs, call):
    """If the call's bool / Result / Option result feeds a switch (possibly through
    `Try::branch`, `is_some`, `is_ok`, `Not`, discriminant), return a list of
    (switch_bb, edge_target, meaning) where meaning in {'true','false','ok','err','some','none', value}.
    Best effort: recognises the repo's idioms; unknown shapes return []."""
    res = []
    d = call.dest[0]
    # follow: dest -> (move) -> disc -> switch
    frontier = [(d, 'raw')]
    seen = set()
    n = len(fn.bbs)
    uses = collections.defaultdict(list)
    for i, b in enumerate(fn.bbs):
        if b['cleanup']:
            continue
        for j, st in enumerate(b['s']):
            for p in rvalue_places(st[1]):
                uses[p[0]].append(('st', i, j, st))
        t = b['t']
        if t[0] == 'call':
            for k, a in enumerate(t[3]):
                if a[0] in ('c', 'm'):
                    uses[a[1][0]].append(('call', i, k, Call(i, t)))
        elif t[0] == 'sw' and t[1][0] in ('c', 'm'):
            uses[t[1][1][0]].append(('sw', i, 0, t))
    while frontier:
        l, mode = frontier.pop()
        if (l, mode) in seen:
            continue
        seen.add((l, mode))
        for u in uses.get(l, []):
            if u[0] == 'sw':
                t = u[3]
                for v, bb in t[2]:
                    res.append((u[1], bb, (mode, v)))
                res.append((u[1], t[3], (mode, 'otherwise')))
            elif u[0] == 'st':
                st = u[3]
                rv = st[1]
                if st[0][1]:
                    continue
                if rv[0] == 'disc':
                    frontier.append((st[0][0], 'disc' if mode == 'raw' else mode))
                elif rv[0] == 'use':
                    frontier.append((st[0][0], mode))
                elif rv[0] == 'un' and rv[1] == 'Not':
                    frontier.append((st[0][0], 'not' if mode == 'raw' else mode + '!'))
                elif rv[0] == 'ref':
                    frontier.append((st[0][0], mode))
            elif u[0] == 'call':
                c = u[3]
                g = c.generic
                if g.endswith('Try::branch'):
                    frontier.append((c.dest[0], 'branch'))
                elif re.search(r'::(is_some|is_ok)$', g):
                    frontier.append((c.dest[0], 'is_ok'))
                elif re.search(r'::(is_none|is_err)$', g):
                    frontier.append((c.dest[0], 'is_err'))
    return res


# ----------------------------------------------------------------------------
# outcome edges of a call result (Result / Option / bool)


class Uses:
    def __init__(self, fn):
        self.fn = fn
        self.uses = collections.defaultdict(list)
        for i, b in enumerate(fn.bbs):
            if b['cleanup']:
                continue
            for j, st in enumerate(b['s']):
                for p in rvalue_places(st[1]):
                    self.uses[p[0]].append(('st', i, j, st, p))
            t = b['t']
            if t[0] == 'call':
                c = Call(i, t)
                for k, a in enumerate(t[3]):
                    if a[0] in ('c', 'm'):
                        self.uses[a[1][0]].append(('call', i, k, c, a[1]))
            elif t[0] == 'sw' and t[1][0] in ('c', 'm'):
                self.uses[t[1][1][0]].append(('sw', i, 0, t, t[1][1]))
            elif t[0] == 'drop':
                self.uses[t[1][0]].append(('drop', i, 0, t, t[1]))


class Outcome:
    def __init__(self):
        self.ok = set()       # (from_bb, to_bb) edges taken when the value is Ok / Some / true
        self.err = set()      # … Err / None / false
        self.returned = False  # value (or a value derived by map/map_err) is returned / stored
        self.unwrapped = []   # unwrap/expect calls on it
        self.discarded = False
        self.sinks = []       # calls the value was passed to that we do not model

    def __repr__(self):
        return 'Outcome(ok=%s err=%s ret=%s unwrap=%d sinks=%s)' % (sorted(self.ok), sorted(self.err), self.returned, len(self.unwrapped), self.sinks)


def _ret_kind(ty):
    if ty.startswith('std::result::Result<') or ty.startswith('core::result::Result<'):
        return 'result'
    if ty.startswith('std::option::Option<') or ty.startswith('core::option::Option<'):
        return 'option'
    if ty == 'bool':
        return 'bool'
    if 'ControlFlow<' in ty:
        return 'cf'
    return None


def outcome_edges(fn, local, kind=None, uses=None):
    """Where does control go depending on the outcome held in `local`?
    kind: 'result' | 'option' | 'bool' | 'cf' (default: from the local's type)."""
    uses = uses or Uses(fn)
    out = Outcome()
    kind = kind or _ret_kind(fn.locals[local])
    if kind is None:
        return out
    # state: (local, kind, pol) ; for bool pol=True means "true == ok"
    work = [(local, kind, True)]
    seen = set()
    any_use = False
    while work:
        l, k, pol = work.pop()
        if (l, k, pol) in seen:
            continue
        seen.add((l, k, pol))
        if l == 0 and k in ('result', 'option', 'cf', 'bool'):
            out.returned = True     # the value (or what map / map_err made of it) is the function's own result
        for u in uses.uses.get(l, []):
            tag = u[0]
            if tag == 'drop':
                continue
            any_use = True
            if tag == 'sw':
                t = u[3]
                if u[4][1]:
                    continue
                bb = u[1]
                listed = {v: tb for v, tb in t[2]}
                oth = t[3]

                def put(val_is_ok, tb):
                    (out.ok if (val_is_ok == pol) else out.err).add((bb, tb))
                if k in ('disc_result', 'disc_cf'):
                    for v, tb in listed.items():
                        put(v == '0', tb)
                    if len(listed) == 1:
                        put('0' not in listed, oth)
                elif k == 'disc_option':
                    for v, tb in listed.items():
                        put(v == '1', tb)
                    if len(listed) == 1:
                        put('1' not in listed, oth)
                elif k == 'bool':
                    for v, tb in listed.items():
                        put(v != '0', tb)
                    put('0' in listed, oth)
            elif tag == 'st':
                st, p = u[3], u[4]
                rv = st[1]
                dst = st[0]
                if rv[0] == 'disc' and not p[1] and k in ('result', 'option', 'cf'):
                    if not dst[1]:
                        work.append((dst[0], 'disc_' + k, pol))
                elif rv[0] == 'use' and not p[1]:
                    if not dst[1]:
                        if dst[0] == 0:
                            out.returned = True
                        work.append((dst[0], k, pol))
                    else:
                        out.returned = True  # stored into a structure
                elif rv[0] == 'un' and rv[1] == 'Not' and k == 'bool' and not dst[1]:
                    work.append((dst[0], 'bool', not pol))
                elif rv[0] == 'ref' and not p[1] and not dst[1]:
                    work.append((dst[0], k, pol))
                elif rv[0] == 'agg' and not p[1]:
                    out.returned = True
            elif tag == 'call':
                c, p = u[3], u[4]
                if p[1]:
                    continue
                g = c.generic
                d = c.dest[0] if not c.dest[1] else None
                if g.endswith('Try::branch') and d is not None:
                    work.append((d, 'cf', pol))
                elif re.search(r'Result::<.*>::(map_err|map|or_else|and_then|inspect_err|inspect)$|Result::<T, E>::(map_err|map|inspect_err|inspect|context|with_context)$', g) and d is not None and u[2] == 0:
                    work.append((d, 'result', pol))
                elif re.search(r'Option::<T>::(map|filter|inspect)$', g) and d is not None and u[2] == 0:
                    work.append((d, 'option', pol))
                elif re.search(r'Option::<T>::(ok_or|ok_or_else)$', g) and d is not None and u[2] == 0:
                    work.append((d, 'result', pol))
                elif re.search(r'Result::<T, E>::(ok)$', g) and d is not None and u[2] == 0:
                    work.append((d, 'option', pol))
                elif re.search(r'::(is_ok|is_some)$', g) and d is not None:
                    work.append((d, 'bool', pol))
                elif re.search(r'::(is_err|is_none)$', g) and d is not None:
                    work.append((d, 'bool', not pol))
                elif re.search(r'::(unwrap|expect|unwrap_or_default|unwrap_or|unwrap_or_else)$', g):
                    out.unwrapped.append(c)
                    if c.target is not None and c.target >= 0 and re.search(r'::(unwrap|expect)$', g):
                        (out.ok if pol else out.err).add((c.bb, c.target))
                elif re.search(r'(Deref::deref|AsRef::as_ref|Option::<T>::as_ref|Result::<T, E>::as_ref|Option::<T>::as_mut|Option::<T>::as_deref)$', g) and d is not None:
                    work.append((d, k, pol))
                elif g.endswith('FromResidual::from_residual') or g.endswith('from_residual'):
                    out.returned = True
                else:
                    out.sinks.append(c.resolved)
    if not any_use:
        out.discarded = True
    # drop elaboration re-tests the discriminant after the program's own test
    # (open drop of an enum): a switch dominated by another switch on the same
    # value adds only path-correlated, infeasible edges — keep the first tests.
    sbs = {a for (a, _) in out.ok | out.err if fn.bbs[a]['t'][0] == 'sw'}
    if len(sbs) > 1:
        dom = dominators(fn)
        drop = {a for a in sbs if any(b != a and b in dom[a] for b in sbs)}
        out.ok = {e for e in out.ok if e[0] not in drop}
        out.err = {e for e in out.err if e[0] not in drop}
    return out


def call_outcome(fn, call, uses=None):
    if call.dest[1]:
        return Outcome()
    return outcome_edges(fn, call.dest[0], uses=uses)


def reachable_from_entry_cutting(fn, cut_edges, cut_blocks=()):
    return reachable(fn, [0], cut_blocks=cut_blocks, cut_edges=cut_edges)


def must_pass_edges(fn, bb, dom=None):
    """Switch edges (a, s) that every path from the entry to `bb` takes:
    cutting the edge makes bb unreachable. Only switches dominating bb can qualify."""
    dom = dom or dominators(fn)
    out = []
    for a in sorted(dom[bb]):
        t = fn.bbs[a]['t']
        if t[0] != 'sw' or a == bb and False:
            continue
        for s in set(succs(fn, a)):
            if bb not in reachable(fn, [0], cut_edges={(a, s)}):
                out.append((a, s))
    return out


def necessary_condition_sources(fn, bb, defs=None, cd=None, dom=None):
    """Union of the slices of the switch operands that are necessary conditions
    of reaching bb, as a list of (switch_bb, succ, Slice)."""
    defs = defs or Defs(fn)
    cd = cd if cd is not None else control_deps(fn)
    out = []
    for (a, s) in must_pass_edges(fn, bb, dom):
        t = fn.bbs[a]['t']
        sl = backward_slice(fn, [t[1]], defs, cd=cd)
        out.append((a, s, sl))
    return out


# ----------------------------------------------------------------------------
# A5: reachability with constant propagation on switch flags


def _const_val(k):
    if k == 'true':
        return 1
    if k == 'false':
        return 0
    m = re.match(r'^(-?\d+)_[iu](8|16|32|64|128|size)$', k)
    if m:
        return int(m.group(1))
    return None


# 'path::Enum::Variant' -> discriminant, for every enum of the loaded crates (filled by facts.Crate)
ENUM_DISCR = {}


def reachable_cp(fn, starts, cut_edges=(), cut_blocks=(), init=None, max_states=30000, marks=None, ret_states=None):
    """Like reachable(), but path-sensitive on locals that hold constants and are
    later switched on (the `let flag = match … { A => true, … }; if flag {…}` idiom):
    a switch whose operand has a known constant on this path takes only that edge.
    Falls back to plain reachability if the state budget is exceeded.
    With `marks` (a set of blocks) only the blocks entered AFTER a marked block has been executed on the path are returned:
    `reachable_cp(f, [0], marks={b})` is "what can follow b", with everything the path learnt before b still known.
    With `ret_states` (a list) every reached return appends (block, what is known about the return slot): an int for a known
    constant, 'Ok'/'Err'/'Some'/'None' for a known variant, None otherwise; ['overflow'] is appended if the budget ran out."""
    cut_edges, cut_blocks = set(cut_edges), set(cut_blocks)
    # locals worth tracking: switch operands and what is copied into them
    track = set()
    if ret_states is not None:
        track.add(0)
    for b in fn.bbs:
        t = b['t']
        if t[0] == 'sw' and t[1][0] in ('c', 'm') and not t[1][1][1]:
            track.add(t[1][1][0])
    changed = True
    while changed:
        changed = False
        for b in fn.bbs:
            for st in b['s']:
                if st[0][0] in track and not st[0][1] and st[1][0] == 'use' and st[1][1][0] in ('c', 'm') and not st[1][1][1][1]:
                    if st[1][1][1][0] not in track:
                        track.add(st[1][1][1][0])
                        changed = True
    # tuple flags: `t = (true, a, b)` … `flag = t.0` … `if flag`
    tup_src = {}
    for b in fn.bbs:
        for st in b['s']:
            rv = st[1]
            if st[0][0] in track and not st[0][1] and rv[0] == 'use' and rv[1][0] in ('c', 'm'):
                pl = rv[1][1]
                if len(pl[1]) == 1 and isinstance(pl[1][0], str) and re.match(r'^#\d+$', pl[1][0]):
                    tup_src[pl[0]] = True
    seen = set()
    blocks = set()
    work = [(s, frozenset((init or {}).items())) for s in starts if s not in cut_blocks]
    while work:
        bb, st = work.pop()
        if (bb, st) in seen:
            continue
        seen.add((bb, st))
        if len(seen) > max_states:
            if ret_states is not None:
                ret_states.append('overflow')
            if marks is not None:
                return reachable(fn, [x for m_ in marks for x in succs(fn, m_)], cut_blocks, cut_edges, _plain=True)
            return reachable(fn, starts, cut_blocks, cut_edges, _plain=True)
        env = dict(st)
        if marks is None or ('M', 0) in env:
            blocks.add(bb)
        if marks is not None and bb in marks:
            env[('M', 0)] = 1
        b = fn.bbs[bb]
        for s in b['s']:
            d = s[0]
            if d[1]:
                continue
            l = d[0]
            rv = s[1]
            # enum variants of Result / Option / ControlFlow values (key ('V', local)), of workspace enums (ENUM_DISCR), and
            # the payload of a single-payload wrapper (key ('P', local)): `Ok(false)`, `Ok(None)`, `Ok(Tally::AllYes(..))`
            vk, pk = ('V', l), ('P', l)
            if rv[0] == 'agg' and re.search(r'(Result::(Ok|Err)|Option::(Some|None)|ControlFlow::(Continue|Break))$', rv[1]):
                env[vk] = rv[1].rsplit('::', 1)[1]
                env.pop(pk, None)
                if len(rv[2]) == 1:
                    o = rv[2][0]
                    if o[0] == 'k':
                        cv = _const_val(o[1])
                        if cv is not None:
                            env[pk] = int(cv)
                    elif not o[1][1] and ('V', o[1][0]) in env:
                        env[pk] = env[('V', o[1][0])]
            elif rv[0] == 'agg' and rv[1] in ENUM_DISCR:
                env[vk] = rv[1]
                env.pop(pk, None)
            elif rv[0] == 'use' and rv[1][0] in ('c', 'm') and not rv[1][1][1] and (('V', rv[1][1][0]) in env or ('P', rv[1][1][0]) in env):
                src = rv[1][1][0]
                if ('V', src) in env:
                    env[vk] = env[('V', src)]
                else:
                    env.pop(vk, None)
                if ('P', src) in env:
                    env[pk] = env[('P', src)]
                else:
                    env.pop(pk, None)
            elif rv[0] == 'use' and rv[1][0] in ('c', 'm') and len(rv[1][1][1]) == 2 and isinstance(rv[1][1][1][0], str) and \
                    rv[1][1][1][0] in ('as Continue', 'as Ok', 'as Some') and ('P', rv[1][1][0]) in env:
                pv = env[('P', rv[1][1][0])]
                env.pop(vk, None)
                env.pop(pk, None)
                if isinstance(pv, int):
                    env[l] = pv
                    continue
                env[vk] = pv
            elif rv[0] == 'ref' and not rv[2] and not rv[1][1] and ('V', rv[1][0]) in env:
                # `&result` handed to is_ok() / as_ref(): the shared borrow shows the same variant
                env[vk] = env[('V', rv[1][0])]
                env.pop(pk, None)
            elif rv[0] == 'disc' and not rv[1][1] and ('V', rv[1][0]) in env:
                vname = env[('V', rv[1][0])]
                env[l] = ENUM_DISCR[vname] if vname in ENUM_DISCR else {'Ok': 0, 'Err': 1, 'None': 0, 'Some': 1, 'Continue': 0, 'Break': 1}[vname]
                env.pop(vk, None)
                continue
            else:
                env.pop(vk, None)
                env.pop(pk, None)
            if l in tup_src:
                for key in [k for k in env if isinstance(k, tuple) and k[0] == l]:
                    env.pop(key, None)
                if rv[0] == 'agg' and rv[1] == 'tuple':
                    for i, op in enumerate(rv[2]):
                        if op[0] == 'k':
                            v = _const_val(op[1])
                            if v is not None:
                                env[(l, i)] = v
                continue
            if l in track and rv[0] == 'use' and rv[1][0] in ('c', 'm') and len(rv[1][1][1]) == 1 \
                    and isinstance(rv[1][1][1][0], str) and re.match(r'^#\d+$', rv[1][1][1][0]):
                key = (rv[1][1][0], int(rv[1][1][1][0][1:]))
                if key in env:
                    env[l] = env[key]
                else:
                    env.pop(l, None)
                continue
            if l in track and rv[0] == 'use':
                op = rv[1]
                if op[0] == 'k':
                    v = _const_val(op[1])
                    if v is None:
                        env.pop(l, None)
                    else:
                        env[l] = v
                elif not op[1][1] and op[1][0] in env:
                    env[l] = env[op[1][0]]
                else:
                    env.pop(l, None)
            elif l in env or l in track:
                if rv[0] == 'un' and rv[1] == 'Not' and rv[2][0] in ('c', 'm') and not rv[2][1][1] and rv[2][1][0] in env:
                    env[l] = 0 if env[rv[2][1][0]] else 1
                else:
                    env.pop(l, None)
            # a mutable borrow of a tracked local invalidates it
            if rv[0] == 'ref' and rv[2] and not rv[1][1]:
                env.pop(rv[1][0], None)
            # a moved-out temporary is dead: forget what was known about it (keeps the state space small)
            for o_ in rvalue_operands(rv):
                if o_[0] == 'm' and not o_[1][1] and o_[1][0] != l:
                    env.pop(('V', o_[1][0]), None)
                    env.pop(('P', o_[1][0]), None)
        t = b['t']
        nxt = None
        if t[0] == 'call':
            moved_args = [a_[1][0] for a_ in t[3] if a_[0] == 'm' and not a_[1][1]]
            if not t[4][1]:
                env.pop(t[4][0], None)
                vk = ('V', t[4][0])
                a0 = t[3][0] if t[3] else None
                av = env.get(('V', a0[1][0])) if a0 is not None and a0[0] in ('c', 'm') and not a0[1][1] else None
                ap = env.get(('P', a0[1][0])) if a0 is not None and a0[0] in ('c', 'm') and not a0[1][1] else None
                env.pop(('P', t[4][0]), None)
                if ap is not None and (t[1].endswith('Try::branch') or re.search(r'Result::<.*>::(map_err|inspect|inspect_err)$', t[1])):
                    env[('P', t[4][0])] = ap
                if t[1].endswith('from_residual'):
                    env[vk] = 'None' if fn.locals[t[4][0]].startswith('std::option::Option<') else 'Err'
                elif t[1].endswith('Try::branch') and av is not None:
                    env[vk] = 'Continue' if av in ('Ok', 'Some', 'Continue') else 'Break'
                elif av is not None and re.search(r'Result::<.*>::(map_err|map|inspect|inspect_err)$|Option::<T>::(map|inspect)$', t[1]):
                    env[vk] = av
                elif av is not None and re.search(r'Option::<T>::(ok_or|ok_or_else)$', t[1]):
                    env[vk] = 'Ok' if av == 'Some' else 'Err'
                elif av is not None and re.search(r'Result::<.*>::(is_ok|is_err)$|Option::<T>::(is_some|is_none)$', t[1]):
                    good = av in ('Ok', 'Some')
                    env[t[4][0]] = int(good if re.search(r'(is_ok|is_some)$', t[1]) else not good)
                    env.pop(vk, None)
                else:
                    env.pop(vk, None)
            for m_ in moved_args:
                if t[4][1] or m_ != t[4][0]:
                    env.pop(('V', m_), None)
                    env.pop(('P', m_), None)
        if t[0] == 'ret' and ret_states is not None and (marks is None or ('M', 0) in env):
            ret_states.append((bb, env.get(0, env.get(('V', 0)))))
        if t[0] == 'sw' and t[1][0] in ('c', 'm') and not t[1][1][1] and t[1][1][0] in env:
            v = str(env[t[1][1][0]])
            listed = dict(t[2])
            nxt = [listed.get(v, t[3])]
        if nxt is None:
            nxt = succs(fn, bb)
        ns = frozenset(env.items())
        for s in nxt:
            if s in cut_blocks or (bb, s) in cut_edges:
                continue
            work.append((s, ns))
    return blocks


def return_bool_values(fn, cut_edges=(), max_states=20000):
    """Possible values of a bool-returning body's result under the given edge cuts:
    a set drawn from {True, False, None} (None = not a compile-time constant on that path).
    Tracks every bool local through constants, copies and Not, path-sensitively."""
    cut_edges = set(cut_edges)
    bools = {i for i, t in enumerate(fn.locals) if t == 'bool'}
    out = set()
    seen = set()
    work = [(0, frozenset())]
    while work:
        bb, st = work.pop()
        if (bb, st) in seen:
            continue
        seen.add((bb, st))
        if len(seen) > max_states:
            return {None}
        env = dict(st)
        b = fn.bbs[bb]
        for s_ in b['s']:
            d = s_[0]
            if d[1] or d[0] not in bools:
                continue
            rv = s_[1]
            v = None
            if rv[0] == 'use':
                if rv[1][0] == 'k':
                    cv = _const_val(rv[1][1])
                    v = None if cv is None else bool(cv)
                elif not rv[1][1][1]:
                    v = env.get(rv[1][1][0])
            elif rv[0] == 'un' and rv[1] == 'Not' and rv[2][0] in ('c', 'm') and not rv[2][1][1]:
                x = env.get(rv[2][1][0])
                v = None if x is None else (not x)
            if v is None:
                env.pop(d[0], None)
            else:
                env[d[0]] = v
        t = b['t']
        if t[0] == 'call' and not t[4][1]:
            env.pop(t[4][0], None)
        if t[0] == 'ret':
            out.add(env.get(0))
            continue
        nxt = None
        if t[0] == 'sw' and t[1][0] in ('c', 'm') and not t[1][1][1] and t[1][1][0] in env:
            listed = dict(t[2])
            nxt = [listed.get('1' if env[t[1][1][0]] else '0', t[3])]
        if nxt is None:
            nxt = succs(fn, bb)
        ns = frozenset(env.items())
        for x in nxt:
            if (bb, x) in cut_edges:
                continue
            work.append((x, ns))
    return out
