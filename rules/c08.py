"""C08 Checkpoint rollback — restore covers what clear wipes."""
import re
import analyses as A
import lib

SRF = 'tensor_store::slab_router::SlabRouter.'
SR = 'tensor_store::slab_router::SlabRouter::'
ASSUMPTIONS = ['query-level equality before/after rollback and retention counts are not decided here']
READONLY = re.compile(r'::(get|contains|contains_key|scan|scan_prefix|len|is_empty|snapshot|stats|iter|keys|exists|dimension|count|capacity)$')
CRATES = ['tensor_store', 'relational_engine', 'graph_engine', 'vector_engine', 'tensor_checkpoint', 'query_router', 'tensor_blob',
          'tensor_cache', 'tensor_vault', 'tensor_unified', 'tensor_chain']


TSF = 'tensor_store::TensorStore.'


def _store_receiver_fields(f, defs, only_mut=True):
    """like _receiver_fields, for the fields of TensorStore itself (e.g. the Bloom filter), `router` excluded"""
    out = {}
    for c in A.calls(f):
        if not c.args or c.args[0][0] == 'k':
            continue
        fs = A.place_fields(c.args[0][1])
        if not fs:
            fs, _ = A.origin_fields(f, c.args[0][1][0], defs)
        for x in fs:
            if x.startswith(TSF) and x != TSF + 'router':
                if only_mut and READONLY.search(c.resolved):
                    continue
                out.setdefault(x[len(TSF):], []).append(c)
    return out


def _receiver_fields(f, defs, only_mut=True):
    out = {}
    for c in A.calls(f):
        if not c.args or c.args[0][0] == 'k':
            continue
        fs = A.place_fields(c.args[0][1])
        if not fs:
            fs, _ = A.origin_fields(f, c.args[0][1][0], defs)
        for x in fs:
            if x.startswith(SRF):
                if only_mut and READONLY.search(c.resolved):
                    continue
                out.setdefault(x[len(SRF):], []).append(c)
    return out


def r08a(ctx, rep):
    rep.rule('R08a', 'TensorStore::restore_from_bytes (what ROLLBACK TO runs): every slab field that SlabRouter::clear wipes and that '
                     'some function outside the router writes through is written again on the restore path after the clear '
                     '(clear set ⊆ refill set over fields in use)')
    ts = ctx.crate('tensor_store')
    clear = rep.require_fn('R08a', ts, SR + 'clear')
    rest = rep.require_fn('R08a', ts, 'tensor_store::TensorStore::restore_from_bytes')
    if clear is None or rest is None:
        return
    cleared = set()
    cd = A.Defs(clear)
    for fld, cs in _receiver_fields(clear, cd).items():
        if any(c.resolved.endswith('::clear') for c in cs):
            cleared.add(fld)
    rep.floor('R08a', 'slab fields cleared by SlabRouter::clear', len(cleared), 4)
    # restore path after the clear
    rd = A.Defs(rest)
    cl = A.calls_to(rest, SR + 'clear') + A.calls_to(rest, 'tensor_store::TensorStore::clear')
    cg0 = ctx.callgraph(['tensor_store'])
    store_cleared = set()
    for c in cl:
        for n in cg0.reach([c.resolved]):
            g = ts.fns.get(n)
            if g is not None and n.startswith('tensor_store::TensorStore::'):
                for fld, cs in _store_receiver_fields(g, A.Defs(g)).items():
                    if any(x.resolved.endswith('::clear') for x in cs):
                        store_cleared.add(fld)
    if not cl:
        rep.notes.append('R08a: restore_from_bytes no longer clears the live router; the rule checks only what is cleared on this path')
        rep.holds('R08a', rest, 'no clear', 'nothing is wiped')
        return
    R = A.reachable(rest, [cl[0].target])
    refilled = set()
    router_methods = []
    for c in A.calls(rest):
        if c.bb in R and c.resolved.startswith(SR) and c.resolved != SR + 'clear':
            # only calls on the live router (self.router), not on the freshly decoded one
            fs = A.place_fields(c.args[0][1]) if c.args and c.args[0][0] != 'k' else []
            if not fs and c.args and c.args[0][0] != 'k':
                fs, _ = A.origin_fields(rest, c.args[0][1][0], rd)
            if any(x.endswith('TensorStore.router') for x in fs):
                router_methods.append(c.resolved)
    cg = ctx.callgraph(['tensor_store'])
    for m in sorted(set(router_methods)):
        for n in cg.reach([m]):
            g = ts.fns.get(n)
            if g is None or not n.startswith(SR):
                continue
            refilled |= set(_receiver_fields(g, A.Defs(g)).keys())
    # a slab method called directly on a field of the live router (`self.router.relations.replace_with(..)`) refills that field
    for c in A.calls(rest):
        if c.bb in R and c.args and c.args[0][0] != 'k' and not READONLY.search(c.resolved) and not c.resolved.endswith('::clear'):
            fs = A.place_fields(c.args[0][1])
            if not fs:
                fs, _ = A.origin_fields(rest, c.args[0][1][0], rd)
            if any(x.endswith('TensorStore.router') for x in fs):
                for x in fs:
                    if x.startswith(SRF):
                        refilled.add(x[len(SRF):])
    # whole-field assignment would also refill
    for w in A.field_writes(rest):
        if w[2].startswith(SRF):
            refilled.add(w[2][len(SRF):])
    # store-level state (e.g. the Bloom filter): refilled only by TensorStore methods called after the clear
    store_refilled = set()
    for c in A.calls(rest):
        if c.bb in R and c.resolved.startswith('tensor_store::TensorStore::') and not c.resolved.endswith('::clear'):
            for n in cg0.reach([c.resolved]):
                g = ts.fns.get(n)
                if g is not None and n.startswith('tensor_store::TensorStore::'):
                    store_refilled |= set(_store_receiver_fields(g, A.Defs(g)).keys())
    for fld in sorted(store_cleared):
        readers = sorted(n for n, g in ts.fns.items() if n.startswith('tensor_store::TensorStore::') and not n.endswith('::clear')
                         and fld in _store_receiver_fields(g, A.Defs(g), only_mut=False))
        if fld in store_refilled:
            rep.holds('R08a', rest, 'store.' + fld, 'cleared and refilled')
        elif readers:
            rep.violation('R08a', rest, 'not-refilled-store-' + fld, rest.loc(cl[0].line),
                          'rollback clears TensorStore.%s and copies the image back through %s, which never writes it, while %s consult it: after '
                          'ROLLBACK TO keys that scan() lists are answered NotFound' % (fld, ', '.join(lib.short(m) for m in sorted(set(router_methods))) or 'the router',
                                                                                   ', '.join(lib.short(x) for x in readers[:3])))
    rep.notes.append('R08a: cleared=%s refilled=%s via %s; store-level cleared=%s refilled=%s' % (
        sorted(cleared), sorted(refilled), sorted(set(router_methods)), sorted(store_cleared), sorted(store_refilled)))
    # who else writes through the field
    users = {}
    for cn in CRATES:
        cr = ctx.crate(cn)
        for f in cr.fns.values():
            if f.file.endswith('tensor_store/src/slab_router.rs') and (
                    f.name in (SR + 'clear', SR + 'snapshot', SR + 'restore', SR + 'restore_with_wal') or '::new' in f.name or '::with_' in f.name):
                continue
            for b in f.bbs:
                if b['cleanup']:
                    continue
                for st in b['s']:
                    if st[1][0] == 'ref':
                        for x in A.place_fields(st[1][1]):
                            if x.startswith(SRF):
                                users.setdefault(x[len(SRF):], set()).add(f.name)
    for fld in sorted(cleared):
        if fld in refilled:
            rep.holds('R08a', rest, fld, 'cleared and refilled')
            continue
        ext = sorted(u for u in users.get(fld, ()) if not u.startswith(SR))
        if ext:
            rep.violation('R08a', rest, 'not-refilled-' + fld, rest.loc(cl[0].line),
                          'rollback clears the `%s` slab and copies back only key-addressed entries (via %s); `%s` is written through by %s '
                          'and is never refilled: data that existed at the checkpoint is missing after ROLLBACK TO' % (
                              fld, ', '.join(lib.short(m) for m in sorted(set(router_methods))), fld, ', '.join(lib.short(x) for x in ext[:3])))
        else:
            rep.candidate('R08a', rest, fld, 'cleared and not refilled, but nothing outside the router writes it today')
            rep.holds('R08a', rest, fld, 'cleared, not refilled, unused outside the router (listed as candidate)')


def r08c(ctx, rep):
    rep.rule('R08c', 'a rollback always wipes what came after the checkpoint: every success return of TensorStore::restore_from_bytes is '
                     'reachable only through the clear of the live router — no property of the decoded image (an empty key scan, a '
                     'count) selects a path that reports success and leaves the current contents in place')
    ts = ctx.crate('tensor_store')
    f = rep.require_fn('R08c', ts, 'tensor_store::TensorStore::restore_from_bytes')
    if f is None:
        return
    cl = A.calls_to(f, SR + 'clear') + A.calls_to(f, 'tensor_store::TensorStore::clear')
    if not cl:
        rep.violation('R08c', f, 'no-clear', f.loc(), 'restore_from_bytes no longer clears the live router: data written after the checkpoint survives the rollback')
        return
    rets = lib.success_return_reachable(f, [0], cut_blocks={c.bb for c in cl})
    if rets:
        rep.violation('R08c', f, 'success-without-clear', f.loc(lib.first_line(f, rets[0])),
                      'restore_from_bytes can return Ok without having cleared the live store: rolling back to a checkpoint that takes this '
                      'path (e.g. one taken on an empty store) reports success and keeps everything written since')
    else:
        rep.holds('R08c', f, 'clear must-pass', 'every success return passes the clear')


def r08b(ctx, rep):
    rep.rule('R08b', 'rollback loads its target before anything can delete it: in CheckpointManager::rollback no call that reaches '
                     'checkpoint deletion (RetentionManager::enforce, CheckpointStorage::delete — e.g. creating a safety checkpoint, which '
                     'runs count-based retention) is reachable before CheckpointStorage::load of the target has returned, and the store is '
                     'restored from the state that load returned')
    cr = ctx.crate('tensor_checkpoint')
    cg = ctx.callgraph(['tensor_checkpoint'])
    bodies = [f for f in A.with_closures(cr.fns, 'tensor_checkpoint::CheckpointManager::rollback')]
    n = 0
    deleters = re.compile(r'RetentionManager::enforce|CheckpointStorage::delete|BlobStore::delete')
    for f in bodies:
        loads = A.calls_to(f, ('re', r'CheckpointStorage::load$'))
        if not loads:
            continue
        n += 1
        rep.analysed(f)
        defs = A.Defs(f)
        # calls reachable from the entry without passing the load
        R = A.reachable(f, [0], cut_blocks={c.bb for c in loads})
        bad = None
        for c in A.calls(f):
            if c.bb not in R or c.bb in {x.bb for x in loads}:
                continue
            tgt = [c.resolved] + [x for x in cg.fns if x.startswith(c.resolved + '::{')]
            p = cg.path(c.resolved, lambda x: deleters.search(x) is not None) if c.resolved in cg.fns else None
            if deleters.search(c.resolved) or p:
                bad = (c, p)
                break
        if bad:
            c, p = bad
            rep.violation('R08b', f, 'delete-before-load', f.loc(c.line),
                          'rollback calls %s before it has loaded its target, and that call reaches checkpoint deletion (%s): with the store '
                          'at its retention limit the target is evicted inside rollback and the rollback fails with NotFound — the checkpoint '
                          'is lost for good' % (lib.short(c.resolved), ' → '.join(lib.short(x) for x in (p or [c.resolved]))))
        else:
            rep.holds('R08b', f, 'load first', 'nothing that reaches deletion runs before the target is loaded')
        rest = A.calls_to(f, ('re', r'TensorStore::restore_from_bytes$'))
        ok = False
        for r_ in rest:
            sl = A.backward_slice(f, [r_.args[1]], defs)
            if any(x.endswith('CheckpointState.store_snapshot') for x in sl.fields) and any(x.endswith('CheckpointStorage::load') for x in sl.calls) or \
                    any(x.endswith('CheckpointState.store_snapshot') for x in sl.fields):
                ok = True
        if rest and ok:
            rep.holds('R08b', f, 'restores the loaded state', '')
        elif rest:
            rep.violation('R08b', f, 'restores-other-bytes', f.loc(rest[0].line), 'restore_from_bytes is not given the loaded checkpoint\'s store_snapshot')
    rep.floor('R08b', 'rollback bodies that load a checkpoint', n, 1)


def r08d(ctx, rep):
    rep.rule('R08d', 'a checkpoint survives being rolled back to: the store a QueryRouter function hands to CheckpointManager::rollback '
                     '(the store that is cleared and refilled from the image) is not the store its BlobStore — where the checkpoint '
                     'artifacts are kept — was built over. The image of a checkpoint is taken before its own artifact is written, so '
                     'restoring it into the store that holds the artifacts removes that checkpoint and every newer one: a retained '
                     'checkpoint can be rolled back to once. Decided by provenance (both store values are the result of the same accessor '
                     'on the same router field); where the stores are the same, CheckpointManager::rollback must load checkpoints before '
                     'TensorStore::restore_from_bytes and reach CheckpointStorage::store after its Ok edge (it writes back what the '
                     'restore removed)')
    cr = ctx.crate('query_router')
    QR = 'query_router::QueryRouter'
    # where the blob store's backing store comes from
    blob_src = set()
    for name, f in sorted(cr.fns.items()):
        if not name.startswith(QR + '::'):
            continue
        for c in A.calls_to(f, ('re', r'BlobStore::new$')):
            owner = cr.fns.get(A.parent_fn(name), f)
            for g in A.with_closures(cr.fns, owner.name):
                gd = A.Defs(g)
                for sc in A.calls(g):
                    if re.search(r'(VectorEngine|RelationalEngine|GraphEngine)::store$', sc.resolved) and sc.args and sc.args[0][0] != 'k':
                        fs, _ = A.origin_fields(g, sc.args[0][1][0], gd)
                        fs = A.place_fields(sc.args[0][1]) + fs
                        for x in fs:
                            if x.startswith(QR + '.'):
                                blob_src.add((sc.resolved, x))
    rep.floor('R08d', 'BlobStore construction sites with a recognised backing store', len(blob_src), 1)
    # does rollback itself carry the artifacts across the restore?  (loaded before restore_from_bytes, stored again after it)
    carries = None
    cp = ctx.crate('tensor_checkpoint')
    for g in A.with_closures(cp.fns, 'tensor_checkpoint::CheckpointManager::rollback'):
        rest = A.calls_to(g, ('re', r'TensorStore::restore_from_bytes$'))
        if not rest:
            continue
        uses = A.Uses(g)
        oke = [t for r_ in rest for (_, t) in A.call_outcome(g, r_, uses).ok] or [r_.target for r_ in rest]
        after = A.reachable(g, oke)
        before = A.reachable(g, [0], cut_blocks={r_.bb for r_ in rest})
        def reaches(name, pat, depth=2, seen=None):
            # async helpers are coroutines (never inlined): look into the bodies of the function and of its closures
            seen = seen if seen is not None else set()
            if name in seen:
                return False
            seen.add(name)
            for h in A.with_closures(cp.fns, name):
                for c in A.calls(h):
                    if re.search(pat, c.resolved):
                        return True
                    if depth > 0 and c.resolved.startswith('tensor_checkpoint::') and reaches(c.resolved, pat, depth - 1, seen):
                        return True
            return False
        st = [c for c in A.calls(g) if c.bb in after and (re.search(r'CheckpointStorage::store$', c.resolved) or
                                                          (c.resolved.startswith('tensor_checkpoint::') and reaches(c.resolved, r'CheckpointStorage::store$')))]
        ld = [c for c in A.calls(g) if c.bb in before and (re.search(r'CheckpointStorage::load$', c.resolved) or
                                                           (c.resolved.startswith('tensor_checkpoint::') and reaches(c.resolved, r'CheckpointStorage::load$')))]
        if st and ld:
            carries = '%d load(s) before, store at %s' % (len(ld), g.loc(st[0].line))
    n = 0
    owners = sorted({A.parent_fn(name) for name, f in cr.fns.items() if name.startswith(QR + '::') and A.calls_to(f, ('re', r'CheckpointManager::rollback$'))})
    for on in owners:
        owner = cr.fns.get(on)
        if owner is None:
            continue
        n += 1
        rep.analysed(owner)
        src = set()
        for g in A.with_closures(cr.fns, on):
            gd = A.Defs(g)
            for sc in A.calls(g):
                if re.search(r'(VectorEngine|RelationalEngine|GraphEngine)::store$', sc.resolved) and sc.args and sc.args[0][0] != 'k':
                    fs, _ = A.origin_fields(g, sc.args[0][1][0], gd)
                    fs = A.place_fields(sc.args[0][1]) + fs
                    for x in fs:
                        if x.startswith(QR + '.'):
                            src.add((sc.resolved, x))
        same = sorted(src & blob_src)
        if same and carries:
            rep.holds('R08d', owner, 'rollback store', 'same store, and CheckpointManager::rollback writes the checkpoints back after the restore (%s)' % carries)
        elif same:
            rep.violation('R08d', owner, 'checkpoints-in-rolled-back-store', owner.loc(),
                          'the store rolled back (%s of %s) is the store the blob store keeps the checkpoint artifacts in: ROLLBACK TO removes '
                          'the target checkpoint and every newer one from the list' % (lib.short(same[0][0]), same[0][1].split('.')[-1]))
        elif not src:
            rep.unresolved_instance('R08d', owner, 'rollback store', 'the store handed to rollback was not traced to a router field')
        else:
            rep.holds('R08d', owner, 'rollback store', 'rolled-back store and artifact store differ')
    rep.floor('R08d', 'router functions that call CheckpointManager::rollback', n, 2)


def r08e(ctx, rep):
    rep.rule('R08e', 'what the checkpoint list reads, the checkpoint writer wrote: every custom-metadata key that CheckpointStorage::list / '
                     'find_by_id_or_name look up on an artifact ("checkpoint_id", "checkpoint_name", "created_at", "trigger") is a key '
                     'CheckpointStorage::store attaches with PutOptions::with_meta. Retention orders checkpoints by "created_at"; without '
                     'it list() falls back to the blob\'s own stamp, which a rollback that re-stores checkpoints resets to "now" — and '
                     'retention then purges a newer checkpoint and keeps the oldest')
    cr = ctx.crate('tensor_checkpoint')
    ST = 'tensor_checkpoint::storage::CheckpointStorage::'

    def strs(fnames, pat, argi):
        out = set()
        found = 0
        for base in fnames:
            for g in A.with_closures(cr.fns, ST + base):
                found += 1
                gd = A.Defs(g)
                for c in A.calls(g):
                    if not re.search(pat, c.resolved) or len(c.args) <= argi:
                        continue
                    op = c.args[argi]
                    for _ in range(5):   # `&*"key"` through a temporary
                        if op[0] == 'k':
                            break
                        d = A.single_def(gd, op[1][0])
                        if not d or d[2] != 'st':
                            break
                        rv = d[3][1]
                        if rv[0] == 'use':
                            op = rv[1]
                        elif rv[0] == 'ref':
                            op = ['c', rv[1]]
                        else:
                            break
                    if op[0] == 'k':
                        m = re.search(r'"([^"]*)"', str(op[1]))
                        if m:
                            out.add(m.group(1))
        return out, found
    written, nw = strs(['store'], r'PutOptions::with_meta$', 1)
    read, nr = strs(['list', 'find_by_id_or_name', 'load'], r'HashMap::<K, V, S(, A)?>::get$', 1)
    if not rep.floor('R08e', 'metadata keys written by CheckpointStorage::store', len(written), 2) or \
            not rep.floor('R08e', 'metadata keys read by CheckpointStorage::list', len(read), 2):
        return
    f = cr.fns.get(ST + 'store') or next(iter(A.with_closures(cr.fns, ST + 'store')), None)
    if f is not None:
        rep.analysed(f)
    missing = sorted(read - written)
    if missing:
        rep.violation('R08e', ST + 'store', 'key-read-but-not-written', '-',
                      'list() reads the artifact metadata key(s) %s that store() does not write: the listing falls back to defaults for '
                      'them (the blob\'s creation stamp for created_at), and ordering / retention no longer follow the checkpoints\' own '
                      'time' % ', '.join('"%s"' % x for x in missing))
    else:
        rep.holds('R08e', ST + 'store', 'metadata keys', 'read %s ⊆ written %s' % (sorted(read), sorted(written)))


def run(ctx, rep):
    r08a(ctx, rep)
    r08b(ctx, rep)
    r08c(ctx, rep)
    r08d(ctx, rep)
    r08e(ctx, rep)
    import c07
    c07.r07g(ctx, rep, ctx.crate('tensor_store'))   # rollback copies the image back through restore_from_bytes: every key class must come back
    c07.r07h(ctx, rep, ctx.crate('tensor_store'))   # the checkpoint image is built from the slabs' snapshot()s
