"""C09 Relational transactions — structural part."""
import re
import analyses as A
import lib

RE = 'relational_engine::RelationalEngine::'
TM = 'relational_engine::transaction::'
SLAB = 'tensor_store::relational_slab::RelationalSlab::'
ASSUMPTIONS = ['equality of table contents after rollback is not decided here']
SLAB_MUT = re.compile(r'^tensor_store::relational_slab::RelationalSlab::(insert|update_row|delete|restore_row|restore_deleted_row|insert_batch|delete_batch|update)\w*$')
IDX = re.compile(r'^relational_engine::RelationalEngine::(index_add|index_remove|btree_index_add|btree_index_remove)$')
INVERSE = {'insert': 'delete', 'update_row': 'restore_row', 'delete': 'restore_deleted_row',
           'index_add': 'index_remove', 'index_remove': 'index_add',
           'btree_index_add': 'btree_index_remove', 'btree_index_remove': 'btree_index_add'}


def _mutators(f):
    return [c for c in A.calls(f) if SLAB_MUT.match(c.resolved) or IDX.match(c.resolved)]


def _bodies(cr, name):
    return A.with_closures(cr.fns, name)


EFFECT = re.compile(r'RowLockManager::try_lock$|TransactionManager::(record_undo|set_phase|release_locks|remove)$|RelationalSlab::scan_all$')
PFX = 'relational_engine::'


def _effect_calls(cg, f, matcher, skip=()):
    """calls in f that perform a matching operation themselves or through crate-local helpers"""
    out = []
    for c in A.calls(f):
        if matcher(c.resolved):
            out.append(c)
        elif c.resolved.startswith(PFX) and c.resolved not in skip and c.resolved in cg.fns:
            if lib.transitive_calls(cg, cg.fns[c.resolved], None, matcher, PFX, depth=2):
                out.append(c)
    return out


def _is_mut(n):
    return bool(SLAB_MUT.match(n) or IDX.match(n))


def _active_edges(g, W, uses=None):
    uses = uses or A.Uses(g)
    e = set()
    for c in A.calls_to(g, TM + 'TransactionManager::is_active'):
        e |= A.call_outcome(g, c, uses).ok
    return e | lib.wrapper_ok_edges(g, W, uses)


def _lock_edges(g, W, uses=None):
    """edges that imply the rows were locked: Ok of try_lock (or of a wrapper), with the nothing-to-lock bypass cut"""
    uses = uses or A.Uses(g)
    cd = None
    e = set()
    tl = A.calls_to(g, ('re', r'transaction::RowLockManager::try_lock$')) + [c for c in A.calls(g) if c.resolved in W]
    for c in tl:
        e |= A.call_outcome(g, c, uses).ok
        cd = cd or A.control_deps(g)
        for (a, s_) in cd.get(c.bb, ()):
            for s2 in set(A.succs(g, a)):
                if s2 != s_:
                    e.add((a, s2))
    return e if tl else set()


def r09a(ctx, rep, cr):
    rep.rule('R09a', 'phase check first: in tx_insert / tx_update / tx_delete / tx_select / commit / rollback no slab or index mutator, '
                     'lock call, undo record, phase change or lock release (direct or through a helper) is reachable unless the true edge of '
                     'TransactionManager::is_active(tx_id) was taken — in the function, or in a helper that returns Ok only through it')
    cg = ctx.callgraph(['relational_engine'])
    W = lib.guard_wrappers(cg, PFX, _active_edges)
    rep.notes.append('R09a: phase-check wrappers = %s' % sorted(lib.short(x) for x in W))
    for name in ('tx_insert', 'tx_update', 'tx_delete', 'tx_select', 'commit', 'rollback'):
        f = rep.require_fn('R09a', cr, RE + name)
        if f is None:
            continue
        ok = _active_edges(f, W)
        if not ok:
            rep.violation('R09a', f, 'no-phase-check', f.loc(), '%s does not test that the transaction is active' % name)
            continue
        R = A.reachable(f, [0], cut_edges=ok)
        eff = _effect_calls(cg, f, lambda n: _is_mut(n) or bool(EFFECT.search(n)), skip=W)
        bad = [c for c in eff if c.bb in R]
        if bad:
            rep.violation('R09a', f, 'effect-before-phase-check', f.loc(bad[0].line),
                          '%s is reachable for a finished / unknown transaction (before is_active held)' % lib.short(bad[0].resolved))
        else:
            rep.holds('R09a', f, 'is_active first', '%d effects behind the check' % len(eff))


def r09b(ctx, rep, cr):
    rep.rule('R09b', 'undo before change: in tx_update / tx_delete no slab or index mutator is reachable before record_undo; in tx_insert '
                     'every path from the slab insert to an Ok return passes record_undo')
    for name in ('tx_update', 'tx_delete'):
        f = rep.require_fn('R09b', cr, RE + name)
        if f is None:
            continue
        ru = A.calls_to(f, TM + 'TransactionManager::record_undo')
        muts = _mutators(f)
        if not ru or not muts:
            rep.violation('R09b', f, 'shape', f.loc(), 'anchor-missing: record_undo (%d) / mutators (%d)' % (len(ru), len(muts)))
            continue
        R = A.reachable(f, [0], cut_blocks={c.bb for c in ru})
        bad = [c for c in muts if c.bb in R]
        if bad:
            rep.violation('R09b', f, 'change-before-undo', f.loc(bad[0].line), '%s can run before the undo entry for the row is recorded: a failure in between cannot be rolled back' % lib.short(bad[0].resolved))
        else:
            rep.holds('R09b', f, 'undo→change', '%d mutators after record_undo' % len(muts))
    f = rep.require_fn('R09b', cr, RE + 'tx_insert')
    if f is not None:
        ins = [c for c in A.calls(f) if c.resolved == SLAB + 'insert']
        ru = A.calls_to(f, TM + 'TransactionManager::record_undo')
        if not ins or not ru:
            rep.violation('R09b', f, 'shape', f.loc(), 'anchor-missing: slab insert (%d) / record_undo (%d)' % (len(ins), len(ru)))
        else:
            rets = lib.success_return_reachable(f, [ins[0].target], cut_blocks={c.bb for c in ru})
            if rets:
                rep.violation('R09b', f, 'insert-without-undo', f.loc(ins[0].line), 'tx_insert can return Ok without having recorded the undo entry for the inserted row')
            else:
                rep.holds('R09b', f, 'insert→undo', '')
            # listed: error exits between the insert and the undo record
            uses = A.Uses(f)
            for c in A.calls(f):
                if IDX.match(c.resolved):
                    o = A.call_outcome(f, c, uses)
                    if o.returned or o.err:
                        R = A.reachable(f, [0], cut_blocks={x.bb for x in ru})
                        if c.bb in R:
                            rep.candidate('R09b', f, f.loc(c.line), 'an index maintenance error after the slab insert returns before record_undo: the inserted row cannot be rolled back (needs index_add to fail; not armed)')
                            break


def r09c(ctx, rep, cr):
    rep.rule('R09c', 'lock all, then change: in tx_update / tx_delete no mutator (direct or through a helper) is reachable unless the Ok '
                     'edge of RowLockManager::try_lock was taken — in the function or in a helper that returns Ok only through it (the '
                     'nothing-to-lock bypass is cut); sibling rule: every tx_* mutator locks the rows it changes — tx_insert must lock the '
                     'row it creates')
    cg = ctx.callgraph(['relational_engine'])
    W = lib.guard_wrappers(cg, PFX, _lock_edges)
    rep.notes.append('R09c: lock wrappers = %s' % sorted(lib.short(x) for x in W))
    for name in ('tx_update', 'tx_delete'):
        f = rep.require_fn('R09c', cr, RE + name)
        if f is None:
            continue
        ok = _lock_edges(f, W)
        if not ok:
            rep.violation('R09c', f, 'no-lock', f.loc(), '%s changes rows without taking row locks' % name)
            continue
        muts = _effect_calls(cg, f, lambda n: _is_mut(n) or n == TM + 'TransactionManager::record_undo', skip=W)
        R = A.reachable(f, [0], cut_edges=ok)
        bad = [c for c in muts if c.bb in R]
        if bad:
            rep.violation('R09c', f, 'change-before-lock', f.loc(bad[0].line), 'a row can be changed on a path that has not acquired its lock (or the lock conflict is not propagated)')
        else:
            rep.holds('R09c', f, 'lock→change', '')
    f = rep.require_fn('R09c', cr, RE + 'tx_insert')
    if f is not None:
        tl = _effect_calls(cg, f, lambda n: bool(re.search(r'transaction::RowLockManager::(try_lock|lock)\w*$', n)))
        if tl:
            rep.holds('R09c', f, 'insert locks its row', '')
        else:
            rep.violation('R09c', f, 'insert-unlocked', f.loc(),
                          'tx_insert never locks the row it creates (tx_update and tx_delete lock theirs): another transaction can update or '
                          'delete the uncommitted row, and after both roll back a row written only by rolled-back transactions remains')


def r09d(ctx, rep, cr):
    rep.rule('R09d', 'inverse coverage: for each UndoEntry variant, the arm of apply_undo_entry calls (itself or through helpers) the inverse of every forward '
                     'operation class performed, on a path that goes on to a success return, by the function that records that variant '
                     '(slab, hash index, ordered index)')
    cg = ctx.callgraph(['relational_engine'])
    f = rep.require_fn('R09d', cr, RE + 'apply_undo_entry')
    adt = cr.adts.get(TM + 'UndoEntry')
    if f is None or adt is None:
        return
    ds = lib.enum_dispatches(f, TM + 'UndoEntry')
    if not ds:
        rep.violation('R09d', f, 'dispatch', f.loc(), 'anchor-missing: no dispatch on UndoEntry')
        return
    tg = lib.variant_targets(adt, ds[0][1])
    muts = _mutators(f)
    arm_ops = {}
    for v, tb in tg.items():
        stop = {b for vv, b in tg.items() if b != tb}
        R = A.reachable(f, [tb], cut_blocks=stop)
        Ro = A.reachable(f, list(stop), cut_blocks={tb})
        arm_blocks = {b for b in R if b not in Ro}
        arm_ops[v] = {x.split('::')[-1] for x in lib.transitive_calls(cg, f, arm_blocks, _is_mut, PFX, depth=3)}
    # forward ops per recording function
    fwd = {}
    for g in cr.fns.values():
        if not g.name.startswith(RE + 'tx_'):
            continue
        made = set()
        for b in g.bbs:
            for st in b['s']:
                if st[1][0] == 'agg' and st[1][1].startswith(TM + 'UndoEntry::'):
                    made.add(st[1][1].split('::')[-1])
        if not made:
            continue
        ops = set()
        # forward operations the undo entry has to answer for: those on a path that goes on to a success return
        # (a compensating step on an error exit — e.g. taking a row back out when its lock cannot be had — is not one)
        for h in _bodies(cr, g.name):
            for c in _mutators(h):
                if h is g or h.name == g.name:
                    start = [c.target] if c.target is not None and c.target >= 0 else []
                    if start and not lib.success_return_reachable(h, start):
                        continue
                ops.add(c.resolved.split('::')[-1])
        for v in made:
            fwd.setdefault(v, set()).update(ops)
            rep.analysed(g)
    rep.floor('R09d', 'UndoEntry variants recorded', len(fwd), 3)
    for v in sorted(fwd):
        need = {INVERSE[o] for o in fwd[v] if o in INVERSE}
        have = arm_ops.get(v, set())
        miss = sorted(need - have)
        if miss:
            rep.violation('R09d', f, 'arm-' + v, f.loc(), 'undoing %s must call %s (forward: %s) but the arm only calls %s: rollback leaves %s behind' % (
                v, miss, sorted(fwd[v]), sorted(have), 'index entries / row state'))
        else:
            rep.holds('R09d', f, 'arm ' + v, 'forward %s ↔ inverse %s' % (sorted(fwd[v]), sorted(have)))


def r09f(ctx, rep, cr):
    rep.rule('R09f', 'replace order: where one function (or one arm of a dispatch on UndoEntry) both removes an index entry and adds one for the '
                     'same row (tx_update, the UpdatedRow undo arm or its helper), for each index kind the remove precedes the add on every path (index_add is idempotent and '
                     'index_remove unconditional, so add-then-remove deletes the only entry when old and new value are equal)')
    pairs = (('index_remove', 'index_add'), ('btree_index_remove', 'btree_index_add'))
    n = 0
    adt = cr.adts.get(TM + 'UndoEntry')
    targets = []
    for fname, g in sorted(cr.fns.items()):
        if not fname.startswith(RE) or '{closure' in fname:
            continue
        if not any(A.calls_to(g, RE + r_) and A.calls_to(g, RE + a_) for r_, a_ in pairs):
            continue
        ds = lib.enum_dispatches(g, TM + 'UndoEntry') if adt is not None else []
        if ds:
            tg = lib.variant_targets(adt, ds[0][1])
            for v, tb in sorted(tg.items()):
                stop = {b_ for vv, b_ in tg.items() if b_ != tb}
                targets.append((fname, (tb, stop)))
        else:
            targets.append((fname, None))
    for name, arm in targets:
        f = rep.require_fn('R09f', cr, name)
        if f is None:
            continue
        blocks = None
        if arm:
            R = A.reachable(f, [arm[0]], cut_blocks=arm[1])
            Ro = A.reachable(f, list(arm[1]), cut_blocks={arm[0]})
            blocks = {b for b in R if b not in Ro}
        dom = A.dominators(f)
        for rem_n, add_n in pairs:
            rems = [c for c in A.calls_to(f, RE + rem_n) if blocks is None or c.bb in blocks]
            adds = [c for c in A.calls_to(f, RE + add_n) if blocks is None or c.bb in blocks]
            if not rems or not adds:
                continue
            n += 1
            # within one loop iteration no remove may follow an add of the same kind
            heads = {c.bb for c in A.calls_to(f, ('re', r'Iterator>::next$'))}
            bad = []
            for a in adds:
                if a.target is None:
                    continue
                R = A.reachable(f, [a.target], cut_blocks=heads)
                if any(r.bb in R for r in rems):
                    bad.append(a)
            if bad:
                rep.violation('R09f', f, '%s-before-%s' % (add_n, rem_n), f.loc(bad[0].line),
                              '%s can run before %s for the same row: when the old and new indexed value are equal the idempotent add does nothing and the '
                              'remove then deletes the row\'s only index entry' % (add_n, rem_n))
            else:
                rep.holds('R09f', f, '%s → %s' % (rem_n, add_n), '')
    rep.floor('R09f', 'remove/add pairs', n, 2)


def r09e(ctx, rep, cr):
    rep.rule('R09e', 'locks disappear: in commit and rollback, once the phase check passed, every path to any return passes '
                     'TransactionManager::release_locks and ::remove')
    cg = ctx.callgraph(['relational_engine'])
    W = lib.guard_wrappers(cg, PFX, _active_edges)
    for name in ('commit', 'rollback'):
        f = rep.require_fn('R09e', cr, RE + name)
        if f is None:
            continue
        ok = _active_edges(f, W)
        starts = [t for (_, t) in ok]
        for callee in ('release_locks', 'remove'):
            cs = _effect_calls(cg, f, lambda n, callee=callee: n == TM + 'TransactionManager::' + callee, skip=W)
            R = A.reachable(f, starts, cut_blocks={c.bb for c in cs})
            rets = [r for r in A.return_blocks(f) if r in R]
            if not cs or rets or not starts:
                rep.violation('R09e', f, 'exit-without-' + callee, f.loc(), '%s can return (bb%s) for an active transaction without calling %s: its row locks stay behind' % (name, rets, callee))
            else:
                rep.holds('R09e', f, callee, 'on every exit after the phase check')


def r09g(ctx, rep, cr):
    rep.rule('R09g', 'only the holder releases: every removal from RowLockManager.locks is reachable only through the true edge of a '
                     'comparison RowLock.tx_id == <the releasing transaction> (an expired lock may have been taken over by another '
                     'transaction while its key is still in the old holder\'s list), or removes keys selected from the table itself in the '
                     'same critical section (the expiry sweep); clear/retain on the table are not used')
    fns = {n: f for n, f in cr.fns.items() if n.startswith(TM)}
    n = lib.holder_only_release(rep, 'R09g', fns, 'RowLockManager.locks', 'RowLock.tx_id', 'row lock')
    rep.floor('R09g', 'removals from RowLockManager.locks', n, 2)


def r09h(ctx, rep, cr):
    rep.rule('R09h', 'the undo log is complete: every function that records an undo entry (Transaction::record_undo, '
                     'TransactionManager::record_undo) appends it on every path to a return once the transaction was found — no entry is '
                     'dropped or merged away (each entry carries its own statement\'s index changes; rollback replays all of them in reverse)')
    n = 0
    for name, f in sorted(cr.fns.items()):
        if not name.startswith(TM) or not name.endswith('::record_undo'):
            continue
        defs = A.Defs(f)
        pushes = []
        for c in A.calls(f):
            if re.search(r'Vec::<T, A>::push$', c.generic) and c.args and c.args[0][0] != 'k':
                fs = A.place_fields(c.args[0][1])
                if not fs:
                    fs, _ = A.origin_fields(f, c.args[0][1][0], defs)
                if any(x.endswith('Transaction.undo_log') for x in fs):
                    pushes.append(c)
        deleg = A.calls_to(f, ('re', r'transaction::Transaction::record_undo$'))
        if not pushes and not deleg:
            continue
        n += 1
        rep.analysed(f)
        sinks = {c.bb for c in pushes + deleg}
        if pushes:
            # from the entry, a return without the push
            R = A.reachable(f, [0], cut_blocks=sinks)
            rets = [r for r in A.return_blocks(f) if r in R]
            if rets:
                rep.violation('R09h', f, 'entry-dropped', f.loc(lib.first_line(f, rets[0])),
                              'record_undo can return without appending the entry: a later statement\'s undo information (its index '
                              'changes) is missing at rollback, so the indexes keep pointing at values the rollback removed')
            else:
                rep.holds('R09h', f, 'append on every path', '')
        else:
            rep.holds('R09h', f, 'delegates to Transaction::record_undo', '')
    rep.floor('R09h', 'record_undo functions', n, 1)


def r09i(ctx, rep, cr):
    rep.rule('R09i', 'every requested row gets a fresh lock: in RowLockManager::try_lock the acquisition loop (the loop around the insert into '
                     'RowLockManager.locks) cannot go on to its next row without the insert — or a write to RowLock.acquired_at_ms, a refresh. '
                     'Conflict checks ignore expired entries: a row that is skipped because "it is already ours" keeps an entry that may '
                     'have expired, so the transaction goes on to change a row that another transaction can lock and change at once')
    f = rep.require_fn('R09i', cr, TM + 'RowLockManager::try_lock')
    if f is None:
        return
    acquisition_loop(rep, 'R09i', f, 'RowLockManager.locks', 'RowLock.acquired_at_ms')


def acquisition_loop(rep, rule, f, table_suffix, refresh_suffix):
    """shared with C12 (LockManager::try_lock*): the loop around the insert into the lock table inserts on every iteration"""
    import lockgraph as LG
    defs = A.Defs(f)
    gl = {g.local for g in A.guards(f, defs) if (LG.lock_id(g) or '').endswith(table_suffix)}
    ins = []
    for c in A.calls_to(f, ('re', r'HashMap::<K, V, S(, A)?>::insert$')):
        a = c.arg_local(0)
        if a is None:
            continue
        _, root = A.origin_fields(f, a, defs, stop_at=gl)
        if root in gl:
            ins.append(c)
    if not rep.floor(rule, 'inserts into %s in %s' % (table_suffix, lib.short(f.name)), len(ins), 1):
        return
    rep.analysed(f)
    refresh = {w[0] for w in A.field_writes(f) if w[2].endswith(refresh_suffix)}
    dom = A.dominators(f)
    for k, c in enumerate(ins):
        if not any((re.search(r'Iterator>?::next$', x.generic) or re.search(r'Iterator>?::next$', x.resolved)) and x.bb in dom[c.bb] for x in A.calls(f)):
            rep.holds(rule, f, 'insert#%d' % k, 'not in a loop')
            continue
        if lib.loop_iterations_skipping(f, c, also={x.bb for x in ins} | refresh) is not None:
            rep.violation(rule, f, 'row-skipped-in-acquisition', f.loc(c.line),
                          'the acquisition loop can move on to the next key without inserting a lock entry for the current one: the key '
                          'is treated as locked although its entry may have expired, and another transaction can take it')
        else:
            rep.holds(rule, f, 'insert#%d' % k, 'every iteration inserts (or refreshes) the entry')


def expiry_janitor(rep, rule, cr, f, table_field, index_field):
    """shared with C12: a cleanup_expired* function removes exactly the entries that are expired themselves"""
    import lockgraph as LG
    defs = A.Defs(f)
    gl = {g.local for g in A.guards(f, defs) if (LG.lock_id(g) or '').endswith(table_field)}
    rem = []
    for c in A.calls_to(f, ('re', r'HashMap::<K, V, S(, A)?>::remove$')):
        a = c.arg_local(0)
        if a is None:
            continue
        _, root = A.origin_fields(f, a, defs, stop_at=gl)
        if root in gl:
            rem.append(c)
    if not rep.floor(rule, 'removals from %s in %s' % (table_field, lib.short(f.name)), len(rem), 1):
        return
    rep.analysed(f)
    for k, c in enumerate(rem):
        if len(c.args) < 2 or c.args[1][0] == 'k':
            continue
        sl = A.backward_slice(f, [c.args[1]], defs)
        flds = set(sl.fields)
        calls = set(sl.calls)
        for cn in sl.closures:
            h = cr.fns.get(cn[8:] if cn.startswith('closure:') else cn)
            if h is not None:
                flds |= set(A.field_reads(h))
                calls |= {x.resolved for x in A.calls(h)}
                # what the closure captures
        expired = any(re.search(r'::is_expired$', x) for x in calls)
        via_index = any(x.endswith(index_field) for x in flds)
        if not expired:
            # the test may sit on the path instead of in the selection
            atoms = lib.must_pass_atoms(cr.fns, f, defs, c.bb)
            expired = any(a_.kind != 'cmp' and a_.pol and a_.call is not None and a_.call.resolved.endswith('::is_expired') for a_ in atoms)
        if expired and not via_index:
            rep.holds(rule, f, 'remove#%d' % k, 'the removed key is selected from the lock table by is_expired() on its own entry')
        else:
            rep.violation(rule, f, 'janitor-removes-unexpired', f.loc(c.line),
                          'the expiry clean-up removes a key that was %s: a lock that has not expired is released while its transaction is '
                          'still open, and another writer gets the row' %
                          ('taken from the per-transaction key list (%s), not selected by the expiry of its own entry' % index_field.split('.')[-1]
                           if via_index else 'not selected by is_expired() on its own entry'))


def r09j(ctx, rep, cr):
    rep.rule('R09j', 'the janitor releases only what has expired: in RowLockManager::cleanup_expired every key removed from '
                     'RowLockManager.locks is selected from that table by is_expired() on the entry itself (a filter over the table, or a '
                     'must-pass test), and does not come out of the per-transaction key list tx_locks. Releasing "everything the '
                     'transaction holds because its oldest lock timed out" frees rows the open transaction changed a moment ago')
    f = rep.require_fn('R09j', cr, TM + 'RowLockManager::cleanup_expired')
    if f is not None:
        expiry_janitor(rep, 'R09j', cr, f, 'RowLockManager.locks', 'RowLockManager.tx_locks')


def run(ctx, rep):
    cr = ctx.crate('relational_engine')
    r09a(ctx, rep, cr)
    r09b(ctx, rep, cr)
    r09c(ctx, rep, cr)
    r09d(ctx, rep, cr)
    r09e(ctx, rep, cr)
    r09f(ctx, rep, cr)
    r09g(ctx, rep, cr)
    r09h(ctx, rep, cr)
    r09i(ctx, rep, cr)
    r09j(ctx, rep, cr)
