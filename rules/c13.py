"""C13 2PC coordinator restart preserves every logged decision — structural part."""
import re
import analyses as A
import lib
import tpc_rules as T
import wal_rules
import c03

ASSUMPTIONS = ['classification correctness over all logs is not decided here'] + c03.ASSUMPTIONS
TXW = 'tensor_chain::tx_wal::'


def r13a(ctx, rep, cr):
    rep.rule('R13a', 'every phase the coordinator logs as PhaseChange{to} and that is not terminal has a restoring arm in '
                     'TxRecoveryState::classify_in_progress (the arm pushes to a recovery list), recover_from_wal restores from each '
                     'list with the matching phase, and restore maps PrepareVoteKind::Yes{lock_handle} to PrepareVote::Yes carrying that handle')
    adt = cr.adts.get(T.PHASE_ENUM)
    f = rep.require_fn('R13a', cr, TXW + 'TxRecoveryState::classify_in_progress')
    if f is None or adt is None:
        return
    # phases logged as `to`
    logged = {}
    for g in cr.fns.values():
        if not g.name.startswith(T.COORD):
            continue
        defs = None
        for c in A.calls_to(g, T.LOG):
            defs = defs or A.Defs(g)
            if len(c.args) < 2 or c.args[1][0] == 'k':
                continue
            agg = T._find_agg(g, defs, c.args[1][1][0], TXW + 'TxWalEntry::PhaseChange')
            if agg is None:
                continue
            op = agg[2][agg[3].index('to')]
            v = T._promoted_variant(g, op[1]) if op[0] == 'k' else T._local_variant(g, defs, op[1][0])
            if v:
                logged.setdefault(v, g.loc(c.line))
    rep.floor('R13a', 'distinct PhaseChange targets logged', len(logged), 3)
    ds = lib.enum_dispatches(f, T.PHASE_ENUM)
    if not ds:
        rep.violation('R13a', f, 'dispatch', f.loc(), 'anchor-missing: classify_in_progress has no switch on TxPhase')
        return
    sw = ds[0]
    tg = lib.variant_targets(adt, sw[1])
    dom = A.dominators(f)
    heads = {c.bb for c in A.calls_to(f, ('re', r'Iterator>::next$')) if c.bb in dom[sw[0]]}
    defs = A.Defs(f)
    arm_field = {}
    for v, tb in tg.items():
        R = A.reachable(f, [tb], cut_blocks=heads | {sw[0]})
        for b in R:
            t = f.bbs[b]['t']
            if t[0] == 'call' and t[1].endswith('::push') and t[3] and t[3][0][0] != 'k':
                fs, _ = A.origin_fields(f, t[3][0][1][0], defs)
                fs = A.place_fields(t[3][0][1]) + fs
                for x in fs:
                    if x.startswith(TXW + 'TxRecoveryState.'):
                        arm_field[v] = x.split('.')[-1]
    # arms that only select the list (`let bucket = match phase { Prepared => &mut state.prepared_txs, … }`) and push after the match
    for v, tb in tg.items():
        if v in arm_field:
            continue
        stop = {b_ for vv, b_ in tg.items() if b_ != tb}
        R = A.reachable(f, [tb], cut_blocks=heads | {sw[0]})
        Ro = A.reachable(f, list(stop), cut_blocks=heads | {sw[0], tb}) if stop else set()
        pushes = any(f.bbs[b]['t'][0] == 'call' and f.bbs[b]['t'][1].endswith('::push') for b in R)
        for b in sorted(R - Ro):
            for st in f.bbs[b]['s']:
                if st[1][0] == 'ref' and st[1][2]:
                    for x in A.place_fields(st[1][1]):
                        if x.startswith(TXW + 'TxRecoveryState.') and pushes:
                            arm_field[v] = x.split('.')[-1]
    for v, where in sorted(logged.items()):
        if v in ('Committed', 'Aborted'):
            continue
        if v in arm_field:
            rep.holds('R13a', f, 'arm ' + v, 'restored into ' + arm_field[v])
        else:
            rep.violation('R13a', f, 'arm-' + v, f.loc(),
                          'the coordinator logs PhaseChange{to: %s} (%s) but classify_in_progress forgets transactions in that phase' % (v, where))
    # recover_from_wal consumes each list with the matching phase
    g = rep.require_fn('R13a', cr, T.COORD + 'recover_from_wal')
    if g is not None:
        reads = A.field_reads(g)
        gdefs = A.Defs(g)
        for v, fld in sorted(arm_field.items()):
            if (TXW + 'TxRecoveryState.' + fld) not in reads:
                rep.violation('R13a', g, 'list-' + fld, g.loc(), 'recover_from_wal never reads TxRecoveryState.%s: transactions logged as %s are not restored' % (fld, v))
            else:
                rep.holds('R13a', g, 'list ' + fld, 'read')
    # vote handle mapping in the restore closure
    hs = [h for h in A.with_closures(cr.fns, T.COORD + 'recover_from_wal')]
    okh = False
    for h in hs:
        hd = A.Defs(h)
        for b in h.bbs:
            for st in b['s']:
                rv = st[1]
                if rv[0] == 'agg' and rv[1] == T.DT + 'PrepareVote::Yes':
                    op = rv[2][rv[3].index('lock_handle')]
                    sl = A.backward_slice(h, [op], hd)
                    if (TXW + 'PrepareVoteKind.lock_handle') in sl.fields or any('lock_handle' in x for x in sl.fields):
                        okh = True
    if okh:
        rep.holds('R13a', T.COORD + 'recover_from_wal', 'lock handle', 'restored Yes vote carries the logged handle')
    else:
        rep.violation('R13a', T.COORD + 'recover_from_wal', 'lock-handle', g.loc() if g else '-',
                      'restored Yes votes do not carry the logged lock handle: locks of recovered transactions can never be released by handle')


def r13b(ctx, rep, cr):
    rep.rule('R13b', 'every list field of TxRecoveryState that from_entries can fill is read by recover_from_wal '
                     '(recovery consumes its own classification)')
    adt = cr.adts.get(TXW + 'TxRecoveryState')
    g = rep.require_fn('R13b', cr, T.COORD + 'recover_from_wal')
    if adt is None or g is None:
        return
    fields = [fl[0] for fl in adt['variants'][0]['fields'] if fl[1].startswith('std::vec::Vec<')]
    rep.floor('R13b', 'TxRecoveryState list fields', len(fields), 5)
    # filled: some function in tx_wal.rs pushes into it
    filled = set()
    for f in cr.fns.values():
        if not f.file.endswith('tx_wal.rs'):
            continue
        defs = None
        for c in A.calls_to(f, ('re', r'Vec::<T, A>::(push|extend)$')):
            defs = defs or A.Defs(f)
            a = c.arg_local(0)
            if a is None:
                continue
            fs, _ = A.origin_fields(f, a, defs)
            for x in A.place_fields(c.args[0][1]) + fs:
                if x.startswith(TXW + 'TxRecoveryState.'):
                    filled.add(x.split('.')[-1])
    reads = set()
    for h in A.with_closures(cr.fns, g.name):
        reads |= {x.split('.')[-1] for x in A.field_reads(h) if x.startswith(TXW + 'TxRecoveryState.')}
    for fld in fields:
        if fld not in filled:
            continue
        if fld in reads:
            rep.holds('R13b', g, fld, 'consumed')
        else:
            rep.violation('R13b', g, fld, g.loc(),
                          'TxRecoveryState.%s is produced by log replay and never consumed by recover_from_wal: what the log says about '
                          'these transactions is dropped on restart' % fld)


def r13c(ctx, rep, cr):
    rep.rule('R13c', 'an abort is announced to participants only after its AbortIntent was handed to the log: in '
                     'process_pending_aborts no transport send is reachable without passing log_wal_entry(AbortIntent)')
    name = T.COORD + 'process_pending_aborts'
    bodies = [h for h in A.with_closures(cr.fns, name) if h.d.get('co')]
    if not bodies:
        rep.violation('R13c', 'anchor-missing', name, '-', 'anchor-missing: process_pending_aborts not found')
        return
    f = bodies[0]
    rep.analysed(f)
    defs = A.Defs(f)
    logs = T.log_calls(f, defs, 'AbortIntent')
    sends = [c for c in A.calls(f) if re.search(r'Transport(>)?::send$', c.generic) or c.resolved.endswith('Transport::send')]
    if not logs or not sends:
        rep.violation('R13c', f, 'shape', f.loc(), 'anchor-missing: AbortIntent log (%d) / transport send (%d)' % (len(logs), len(sends)))
        return
    R = A.reachable(f, [0], cut_blocks={c.bb for c in logs})
    bad = [c for c in sends if c.bb in R]
    if bad:
        rep.violation('R13c', f, 'send-before-intent', f.loc(bad[0].line), 'an abort can be sent to a shard before its AbortIntent record was written: a crash loses the fact that shards were told to abort')
    else:
        rep.holds('R13c', f, 'intent→send', '%d send site(s) after the AbortIntent record' % len(sends))


def r13d(ctx, rep, cr):
    rep.rule('R13d', 'memory never falls behind the log: once log_wal_entry(PhaseChange{to: Committing|Aborting}) has returned Ok, no write '
                     'to DistributedTransaction.phase other than that phase or its completion (Committed resp. Aborted) is reachable in the '
                     'same function for the same transaction (loop heads that dominate the log call are cut: the next iteration is another '
                     'transaction). A coordinator that hands the transaction back as Prepared after a later log failure can decide the other '
                     'way while the log still says Committing')
    n = 0
    allowed = {'Committing': {'Committing', 'Committed'}, 'Aborting': {'Aborting', 'Aborted'}}
    for name, f in sorted(cr.fns.items()):
        if f.file.endswith('tx_wal.rs'):
            continue
        pw = T.phase_writes(f)
        if not pw:
            continue
        defs, uses = A.Defs(f), A.Uses(f)
        dom = None
        for D in ('Committing', 'Aborting'):
            lc = T.log_calls(f, defs, 'PhaseChange', to=D)
            for k, c in enumerate(lc):
                ok = A.call_outcome(f, c, uses).ok
                if not ok:
                    rep.unresolved_instance('R13d', f, 'log→%s#%d' % (D, k), 'Ok edge of the log call not recognised')
                    continue
                n += 1
                rep.analysed(f)
                dom = dom or A.dominators(f)
                heads = {x.bb for x in A.calls(f) if (re.search(r'Iterator>?::next$', x.generic) or re.search(r'Iterator>?::next$', x.resolved))
                         and x.bb in dom[c.bb]}
                R = A.reachable(f, [t for (_, t) in ok], cut_blocks=heads)
                bad = [(bb, line, v) for (bb, line, v) in pw if bb in R and v not in allowed[D]]
                if bad:
                    bb, line, v = bad[0]
                    rep.violation('R13d', f, 'phase-regression-after-%s' % D, f.loc(line),
                                  'after PhaseChange→%s was logged the function can set the in-memory phase to %s: the coordinator then treats '
                                  'a transaction whose %s decision is on disk as undecided (timeout sweep, abort or recover can decide the '
                                  'opposite), and the next restart restores %s from the log' % (D, v or 'a non-constant value', D.lower(), D))
                else:
                    rep.holds('R13d', f, 'after log→%s#%d' % (D, k), 'only %s written afterwards' % '/'.join(sorted(allowed[D])))
    rep.floor('R13d', 'logged decisions followed in their function', n, 4)


def r13e(ctx, rep, cr):
    rep.rule('R13e', 'replay reproduces the logged decision and nothing else: in TxRecoveryState (tx_wal.rs) every store of a TxPhase into '
                     'the state being rebuilt (a store through a reference or into a field — not the initial tuple built at TxBegin) takes '
                     'its value from the `to` field of a PhaseChange record. A phase inferred from other records (votes, completions) can '
                     'contradict a PhaseChange{to: Committing} that is already in the log: the next restart then restores the transaction '
                     'on the other side of its logged decision')
    n = 0
    PH = T.PHASE_ENUM
    for name, f in [(k, v) for k, v in sorted(cr.fns.items()) if k.startswith(TXW + 'TxRecoveryState::')]:
        if not f.file.endswith('tx_wal.rs'):
            continue
        defs = None
        for i, b in enumerate(f.bbs):
            if b['cleanup']:
                continue
            for st in b['s']:
                dst, rv = st[0], st[1]
                if not dst[1]:
                    continue
                base_t = f.locals[dst[0]]
                typed = False
                if rv[0] == 'agg' and rv[1].startswith(PH + '::'):
                    typed = True
                elif rv[0] == 'use' and rv[1][0] in ('c', 'm'):
                    pl = rv[1][1]
                    typed = (not pl[1] and f.locals[pl[0]] == PH) or (pl[1] == ['*'] and f.locals[pl[0]] in ('&' + PH, '&mut ' + PH))
                elif rv[0] == 'use' and rv[1][0] == 'k':
                    typed = T._promoted_variant(f, rv[1][1]) is not None or (base_t == '&mut ' + PH and dst[1] == ['*'])
                if not typed:
                    continue
                n += 1
                rep.analysed(f)
                defs = defs or A.Defs(f)
                const = rv[1].split('::')[-1] if rv[0] == 'agg' else None
                ok = False
                if rv[0] == 'use' and rv[1][0] != 'k':
                    v = T._local_variant(f, defs, rv[1][1][0]) if not rv[1][1][1] else None
                    if v:
                        const = v
                    else:
                        sl = A.backward_slice(f, [rv[1]], defs)
                        ok = any(x.endswith('TxWalEntry.to') for x in sl.fields)
                elif rv[0] == 'use':
                    const = T._promoted_variant(f, rv[1][1]) or 'a constant'
                if ok:
                    rep.holds('R13e', f, 'phase store', 'value read from PhaseChange.to (%s)' % f.loc(st[2]))
                else:
                    rep.violation('R13e', f, 'phase-not-from-log', f.loc(st[2]),
                                  'replay sets the phase of a transaction to %s without a PhaseChange record saying so: a transaction whose '
                                  'PhaseChange{to: Committing} is in the log can come back Aborting (or the reverse) after the next restart'
                                  % (const or 'a value that is not a logged PhaseChange.to'))
    rep.floor('R13e', 'phase stores during replay', n, 1)


def r13f(ctx, rep, cr):
    rep.rule('R13f', 'the coordinator never discards its own log on the way: no DistributedTxCoordinator function other than the explicit '
                     'administrative truncate_wal reaches TxWal::truncate — not begin / record_vote / commit / abort, and in particular not '
                     'recover / recover_from_wal. Replay forgets transactions that are still collecting votes, so "nothing to recover" is '
                     'not "nothing in flight": a log emptied by a recovery pass loses the TxBegin and the votes of a live transaction, '
                     'whose later PhaseChange{Committing} then has no begin record and is ignored by the next replay')
    cg = A.CallGraph([cr])
    goal = lambda x: re.search(r'tx_wal::TxWal(::<.*>)?::truncate$', x) is not None
    n = 0
    admin = T.COORD + 'truncate_wal'
    if admin in cr.fns:
        rep.analysed(cr.fns[admin])
    for name, f in sorted(cr.fns.items()):
        if not name.startswith(T.COORD) or '{closure' in name or name == admin:
            continue
        n += 1
        direct = any(goal(c.resolved) for h in A.with_closures(cr.fns, name) for c in A.calls(h))
        p = [name] if direct else cg.path(name, goal)
        if p:
            rep.analysed(f)
            rep.violation('R13f', f, 'log-truncated-by-operation', f.loc(),
                          '%s reaches TxWal::truncate (%s): records of transactions that are still in flight are dropped from the log' %
                          (lib.short(name), ' → '.join(lib.short(x) for x in p)))
    rep.holds('R13f', admin, 'only truncate_wal truncates', '%d other coordinator functions checked' % n)
    rep.floor('R13f', 'coordinator functions checked', n, 5)


def r13g(ctx, rep, cr):
    rep.rule('R13g', 'every unfinished transaction in the log is classified: in TxRecoveryState::classify_in_progress no iteration of the loop '
                     'over the replayed transactions reaches the next one without passing the dispatch on the replayed phase. A sanity '
                     'filter in front of the dispatch ("more votes than participants = damaged") silently forgets transactions whose log '
                     'is legitimate — record_vote appends a vote before it validates it, so a refused duplicate is in the log — and a '
                     'Prepared or Committing transaction is gone after the next restart')
    f = rep.require_fn('R13g', cr, TXW + 'TxRecoveryState::classify_in_progress')
    if f is None:
        return
    ds = lib.enum_dispatches(f, T.PHASE_ENUM)
    if not ds:
        rep.violation('R13g', f, 'dispatch', f.loc(), 'anchor-missing: classify_in_progress has no switch on TxPhase')
        return
    rep.analysed(f)
    sw = ds[0][0]
    dom = A.dominators(f)
    uses = A.Uses(f)
    heads = [x for x in A.calls(f) if (re.search(r'Iterator>?::next$', x.generic) or re.search(r'Iterator>?::next$', x.resolved)) and x.bb in dom[sw]]
    if not heads:
        rep.holds('R13g', f, 'dispatch', 'not in a loop')
        return
    h = max(heads, key=lambda x: len(dom[x.bb]))
    some = [t for (_, t) in A.call_outcome(f, h, uses).ok] or ([h.target] if h.target is not None and h.target >= 0 else [])
    R = A.reachable(f, some, cut_blocks={sw, h.bb})
    if any(h.bb in A.succs(f, b_) for b_ in R):
        rep.violation('R13g', f, 'transaction-skipped-before-dispatch', f.loc(),
                      'an unfinished transaction can be passed over without being classified by its phase: it is not restored, and its '
                      'logged votes or decision are lost at this restart')
    else:
        rep.holds('R13g', f, 'dispatch', 'every replayed transaction reaches the phase dispatch')


def r13h(ctx, rep, cr):
    rep.rule('R13h', 'memory follows the log at once: in every coordinator function that logs PhaseChange{to: Committing|Aborting}, once that '
                     'log call has returned Ok no return — success or failure — is reachable before DistributedTransaction.phase has been '
                     'set to that phase. If a later record (TxComplete) fails to be written and the function returns with the phase still '
                     'Prepared, every guard that protects a logged decision (abort, cleanup_timeouts, force_resolve) reads the stale phase: '
                     'the transaction is aborted and announced, and the next restart restores Committing from the log')
    n = 0
    for name, f in sorted(cr.fns.items()):
        if not name.startswith(T.COORD) or '{closure' in name or f.file.endswith('tx_wal.rs'):
            continue
        pw = T.phase_writes(f)
        defs, uses = A.Defs(f), A.Uses(f)
        for D in ('Committing', 'Aborting'):
            lc = T.log_calls(f, defs, 'PhaseChange', to=D)
            for k, c in enumerate(lc):
                ok = A.call_outcome(f, c, uses).ok
                if not ok:
                    continue
                n += 1
                rep.analysed(f)
                dom = A.dominators(f)
                heads = {x.bb for x in A.calls(f) if (re.search(r'Iterator>?::next$', x.generic) or re.search(r'Iterator>?::next$', x.resolved))
                         and x.bb in dom[c.bb]}
                setb = {bb for (bb, line, v) in pw if v == D}
                # the phase may have been set before the record was written (set, log, undo on failure): then memory is not behind
                before = any(bb in dom[c.bb] for bb in setb)
                R = A.reachable(f, [t for (_, t) in ok], cut_blocks=setb | heads)
                rets = [r for r in A.return_blocks(f) if r in R]
                if rets and not before:
                    rep.violation('R13h', f, 'logged-%s-not-in-memory' % D, f.loc(c.line),
                                  'after PhaseChange→%s was logged the function can return (bb%s) with the in-memory phase unchanged: the '
                                  'guards that protect a logged decision read the old phase' % (D, rets[:3]))
                else:
                    rep.holds('R13h', f, 'log→%s#%d' % (D, k), 'phase set before any return')
    rep.floor('R13h', 'logged decisions followed to their returns', n, 2)


def run(ctx, rep):
    cr = ctx.crate('tensor_chain')
    wal_rules.r02b(ctx, rep, ['TxWal'])
    wal_rules.r02e(ctx, rep, ['TxWal'])
    wal_rules.r02f(ctx, rep, ['TxWal'])
    wal_rules.r02g(ctx, rep, ['TxWal'])
    wal_rules.r02h(ctx, rep, ['TxWal'])
    wal_rules.r02i(ctx, rep, ['TxWal'])
    wal_rules.r02j(ctx, rep, ['TxWal'])
    wal_rules.r02k(ctx, rep, ['TxWal'])
    c03.r03c(ctx, rep, cr)
    c03.r03d(ctx, rep, cr)
    c03.r03e(ctx, rep, cr)
    r13a(ctx, rep, cr)
    r13b(ctx, rep, cr)
    r13c(ctx, rep, cr)
    r13d(ctx, rep, cr)
    r13e(ctx, rep, cr)
    r13f(ctx, rep, cr)
    r13g(ctx, rep, cr)
    r13h(ctx, rep, cr)
