"""C06 Similarity search — the cached index is never consulted after its data changed."""
import re
import analyses as A
import lib

VE = 'vector_engine::VectorEngine::'
ASSUMPTIONS = ['top-k exactness, scores and HNSW result validity are numerical and not decided here']
MUT = re.compile(r'^tensor_store::TensorStore::(put|delete|put_durable|delete_durable|clear|update|remove|delete_prefix|batch_put|batch_delete)\w*$')
KEYFN = re.compile(r'VectorEngine::(embedding_key|collection_embedding_key|collection_embedding_prefix|embedding_prefix)$')
INV = VE + 'invalidate_hnsw_cache'


def _key_kind(f, defs, op):
    """('default'|'collection', collection-arg params) if the key operand is built by an embedding key function."""
    if op[0] == 'k':
        if op[1].startswith('"emb:'):
            return ('default', set())
        return None
    sl = A.backward_slice(f, [op], defs)
    kinds = set()
    cparams = set()
    for c in A.calls(f):
        if KEYFN.search(c.resolved) and (c.dest[0] in sl.locals):
            if c.resolved.endswith('::embedding_key') or c.resolved.endswith('::embedding_prefix'):
                kinds.add('default')
            else:
                kinds.add('collection')
                if c.args and c.args[0][0] != 'k':
                    cparams |= A.backward_slice(f, [c.args[0]], defs).params
    # keys that come out of a scan over an embedding prefix constant
    if not kinds and any(k.startswith('"emb:') or k == '"emb:"' for k in sl.consts):
        kinds.add('default')
    if not kinds:
        return None
    return ('collection' if 'collection' in kinds else 'default', cparams)


def _vector_preserving(f, defs, put):
    """A put that writes back what store.get returned for the same key, modified only in
    fields named by metadata_field_key, leaves the vector (what the index was built from) unchanged."""
    if not put.resolved.endswith('::put') or len(put.args) < 3 or put.args[2][0] == 'k':
        return False
    tl = put.args[2][1][0]
    sl = A.backward_slice(f, [put.args[2]], defs)
    gets = [c for c in A.calls_to(f, ('re', r'^tensor_store::TensorStore::get$')) if c.dest[0] in sl.locals]
    if not gets:
        return False
    # every in-place edit of the tensor uses a metadata field name
    edits = 0
    for c in A.calls_to(f, ('re', r'^tensor_store::TensorData::(set|remove|insert)$')):
        a0 = c.arg_local(0)
        if a0 is None or tl not in (defs.ref_targets(a0) | {a0}):
            continue
        edits += 1
        ok = False
        if len(c.args) > 1 and c.args[1][0] != 'k':
            ks = A.backward_slice(f, [c.args[1]], defs)
            ok = any(x.endswith('VectorEngine::metadata_field_key') for x in ks.calls)
        if not ok:
            return False
    return True


def _callers_invalidate(cr, cg, f, kind, cparams):
    """does every call site of the (non-public) mutator f invalidate the right cache slot on its success paths?"""
    callers = [h for h in cg.redges.get(f.name, ()) if h in cr.fns]
    if not callers:
        return (True, 'no caller')
    seen = []
    for hn in sorted(callers):
        h = cr.fns[hn]
        sites = [s_.bb for s_ in cg.sites.get((hn, f.name), [])]
        site_calls = cg.sites.get((hn, f.name), [])
        if not sites:
            return (False, '%s refers to it without a visible call site' % lib.short(hn))
        hd = A.Defs(h)
        inv = A.calls_to(h, INV)
        invb = {c.bb for c in inv}
        R0 = A.reachable(h, [0], cut_blocks=invb)
        for sc in site_calls:
            start = [sc.target] if sc.target is not None and sc.target >= 0 else []
            rets = lib.success_return_reachable(h, start, cut_blocks=invb) if start else []
            if rets and sc.bb in R0:
                return (False, '%s calls it and can return success without invalidate_hnsw_cache' % lib.short(hn))
            ok_arg = False
            for ic in inv:
                a = ic.args[1] if len(ic.args) > 1 else None
                if a is None:
                    continue
                sig = lib.value_sig(h, hd, a)
                if kind == 'default':
                    if any('_default' in x for x in sig):
                        ok_arg = True
                else:
                    for p_ in cparams:
                        if p_ - 1 < len(sc.args) and sc.args[p_ - 1][0] != 'k':
                            sa = A.backward_slice(h, [sc.args[p_ - 1]], hd)
                            si = A.backward_slice(h, [a], hd) if a[0] != 'k' else None
                            if si is not None and (sa.locals & si.locals):
                                ok_arg = True
                    if not cparams:
                        ok_arg = True
            if not ok_arg:
                return (False, '%s invalidates another cache slot than the one whose embeddings it changes through %s (%s collection: the slot is %s)' % (
                    lib.short(hn), lib.short(f.name), kind, '"_default"' if kind == 'default' else 'the collection passed to the write'))
        seen.append(lib.short(hn))
    return (True, ', '.join(seen))


def r06a(ctx, rep, cr):
    cg = A.CallGraph([cr])
    rep.rule('R06a', 'for every VectorEngine body (methods and their closures) that calls a TensorStore mutator on a key built by '
                     'embedding_key / collection_embedding_key / the embedding prefixes: on every path through the mutation to a '
                     'success return invalidate_hnsw_cache is called — after the mutation, or before it — with "_default" resp. the '
                     'same collection; mutations inside closures are charged to the method that creates the closure, and a non-public mutator '
                     'without its own invalidation is charged to every one of its call sites')
    n = 0
    for f in cr.fns.values():
        if not f.name.startswith(VE) or f.name.startswith(INV):
            continue
        muts = []
        defs = uses = None
        for c in A.calls(f):
            if not MUT.match(c.resolved) or len(c.args) < 2:
                continue
            defs = defs or A.Defs(f)
            kk = _key_kind(f, defs, c.args[1])
            if kk:
                muts.append((c, kk))
        muts = [m for m in muts if not _vector_preserving(f, defs, m[0])]
        if not muts:
            continue
        n += len(muts)
        owner = cr.fns.get(A.parent_fn(f.name), f)
        rep.analysed(owner)
        if owner is not f:
            # mutation inside a closure: the creating method must invalidate on its success paths after creating it
            od = A.Defs(owner)
            created = [i for i, b in enumerate(owner.bbs) if not b['cleanup'] and any(st[1][0] == 'agg' and st[1][1].endswith(f.name) for st in b['s'])]
            # nested closures: look for the outermost closure created in the owner
            if not created:
                top = f.name
                while A.parent_fn(top) != top and not created:
                    top = re.sub(r'::\{closure#\d+\}$', '', top)
                    created = [i for i, b in enumerate(owner.bbs) if not b['cleanup'] and any(st[1][0] == 'agg' and st[1][1].endswith(top) for st in b['s'])]
                    if top == owner.name:
                        break
            inv = A.calls_to(owner, INV)
            rets = lib.success_return_reachable(owner, created or [0], cut_blocks={c.bb for c in inv})
            R0 = A.reachable(owner, [0], cut_blocks={c.bb for c in inv})
            before = created and all(b not in R0 for b in created)
            if rets and not before:
                rep.violation('R06a', owner, 'no-invalidate', owner.loc(muts[0][0].line),
                              'embedding keys are mutated (in a closure, %s) and the method can return success without invalidate_hnsw_cache: '
                              'a cached index keeps answering with deleted / overwritten vectors' % lib.short(muts[0][0].resolved))
            elif not before and created and [r for r in A.return_blocks(owner) if r in A.reachable(owner, created, cut_blocks={c.bb for c in inv})]:
                rep.violation('R06a', owner, 'no-invalidate-on-failure', owner.loc(muts[0][0].line),
                              'embedding keys are mutated in a closure (%s) that runs once per element; when a later element fails the method '
                              'returns without invalidate_hnsw_cache although earlier elements were written' % lib.short(muts[0][0].resolved))
            else:
                rep.holds('R06a', owner, 'closure mutation', 'invalidate on every success path')
            continue
        inv = A.calls_to(f, INV)
        invb = {c.bb for c in inv}
        R0 = A.reachable(f, [0], cut_blocks=invb)
        for k, (c, (kind, cparams)) in enumerate(muts):
            start = [c.target] if c.target is not None and c.target >= 0 else []
            rets = lib.success_return_reachable(f, start, cut_blocks=invb) if start else []
            before = c.bb not in R0
            if rets and not before:
                # a private write-half whose callers drop the cache (`write_x` + public wrapper): charge the call sites
                verdict = _callers_invalidate(cr, cg, f, kind, cparams) if f.d.get('vis') != 'Public' else None
                if verdict is not None and verdict[0]:
                    rep.holds('R06a', f, 'mutation#%d' % k, 'not public; every call site invalidates (%s): %s' % (kind, verdict[1]))
                    continue
                rep.violation('R06a', f, 'no-invalidate', f.loc(c.line),
                              '%s on an embedding key (%s) reaches a success return without invalidate_hnsw_cache%s: a cached index keeps '
                              'answering with deleted / overwritten vectors' % (lib.short(c.resolved), kind,
                                                                                 (' and so does its caller — ' + verdict[1]) if verdict else ''))
                continue
            # matching collection argument
            ok_arg = False
            for ic in inv:
                a = ic.args[1] if len(ic.args) > 1 else None
                if a is None:
                    continue
                if kind == 'default':
                    sig = lib.value_sig(f, defs, a)
                    if any('_default' in x for x in sig):
                        ok_arg = True
                else:
                    ip = A.backward_slice(f, [a], defs).params if a[0] != 'k' else set()
                    if (ip & cparams) or not cparams:
                        ok_arg = True
            if ok_arg:
                # the write stays even if the method fails later (a batch that stops at its third element has stored two): a failure
                # return after a SUCCESSFUL mutation needs the invalidation as much as the success return does
                uses = uses or A.Uses(f)
                oke = [t for (_, t) in A.call_outcome(f, c, uses).ok]
                late = [r for r in A.return_blocks(f) if oke and not before and r in A.reachable(f, oke, cut_blocks=invb)]
                if late:
                    rep.violation('R06a', f, 'no-invalidate-on-failure', f.loc(c.line),
                                  'after %s on an embedding key (%s) has succeeded the method can still return — through a later failure — '
                                  'without invalidate_hnsw_cache: the write is in the store, the cached index still answers from the old '
                                  'data' % (lib.short(c.resolved), kind))
                    continue
                rep.holds('R06a', f, 'mutation#%d' % k, 'invalidate(%s) on every success path' % kind)
            else:
                rep.violation('R06a', f, 'wrong-collection', f.loc(c.line), 'the cache is invalidated for a different collection than the one whose embeddings change (%s)' % kind)
    rep.floor('R06a', 'store mutations on embedding keys', n, 4)


def r06b(ctx, rep, cr):
    rep.rule('R06b', 'VectorEngine.hnsw_cache is written only by cache_hnsw_index / invalidate_hnsw_cache, and every reader takes the '
                     'index and its key list out of the same guard acquisition')
    FIELD = 'vector_engine::VectorEngine.hnsw_cache'
    writers, readers = [], []
    for f in cr.fns.values():
        if not any('hnsw_cache' in x for b in f.bbs for st in b['s'] for x in A.place_fields(st[1][1]) if st[1][0] == 'ref') and \
           not any(FIELD in A.place_fields(a[1]) for c in A.calls(f) for a in c.args if a[0] != 'k'):
            continue
        defs = A.Defs(f)
        for g in A.guards(f, defs):
            if FIELD in g.lock_fields:
                (writers if A.guard_kind(g.ty) == 'RwLockWriteGuard' else readers).append((f, g))
    allowed = {VE + 'cache_hnsw_index', VE + 'invalidate_hnsw_cache', VE + 'new', VE + 'with_store', VE + 'with_store_and_config'}
    rep.floor('R06b', 'hnsw_cache write-guard sites', len(writers), 2)
    rep.floor('R06b', 'hnsw_cache read-guard sites', len(readers), 2)
    for f, g in writers:
        if f.name in allowed:
            rep.holds('R06b', f, 'writer', '')
        else:
            rep.violation('R06b', f, 'writer', f.loc(), 'hnsw_cache is write-locked outside cache_hnsw_index / invalidate_hnsw_cache')
    byfn = {}
    for f, g in readers:
        byfn.setdefault(f.name, []).append(g)
    for name, gs in byfn.items():
        f = cr.fns[name]
        acq = sum(len(g.acq_calls) for g in gs)
        if acq == 1:
            rep.holds('R06b', f, 'reader', 'one read acquisition')
        else:
            rep.violation('R06b', f, 'split-read', f.loc(), 'the cached index and its key list are read through %d separate guard acquisitions: '
                          'an invalidation in between pairs an index with another index\'s keys' % acq)


LOSSY_SPARSE = re.compile(r'sparse_vector::SparseVector::(from_dense_with_threshold|try_from_dense_with_threshold|prune|pruned|top_k|truncate\w*|quantize\w*|retain\w*)$')


def r06c(ctx, rep, cr):
    rep.rule('R06c', 'stored vectors read back exactly as written: every TensorValue::Sparse that a VectorEngine method hands to the '
                     'store is built by a lossless constructor (from_dense / try_from_dense / from_parts); no thresholding or pruning '
                     'constructor (from_dense_with_threshold, prune, pruned, …) is on its def-use path')
    n = 0
    for f in cr.fns.values():
        if not f.name.startswith(VE):
            continue
        defs = None
        for b in f.bbs:
            if b['cleanup']:
                continue
            for st in b['s']:
                rv = st[1]
                if rv[0] == 'agg' and rv[1].endswith('TensorValue::Sparse') and rv[2] and rv[2][0][0] != 'k':
                    defs = defs or A.Defs(f)
                    sl = A.backward_slice(f, [rv[2][0]], defs)
                    # only values that go to the store: the function also calls a store mutator
                    if not any(MUT.match(c.resolved) for h in A.with_closures(cr.fns, A.parent_fn(f.name)) for c in A.calls(h)):
                        continue
                    n += 1
                    rep.analysed(f)
                    lossy = sorted(x for x in sl.calls if LOSSY_SPARSE.search(x))
                    if lossy:
                        rep.violation('R06c', f, 'lossy-sparse-store', f.loc(st[2]),
                                      'the vector is stored through %s: components below the threshold are dropped, so it does not read back as written and '
                                      'exhaustive search scores a different vector' % ', '.join(lib.short(x) for x in lossy))
                    else:
                        rep.holds('R06c', f, 'sparse store', 'lossless constructor')
    rep.floor('R06c', 'sparse values handed to the store', n, 2)


DENSE_SCORER = re.compile(r'VectorEngine::(cosine_similarity|compute_score|dot_product|euclidean_distance|manhattan_distance)$|simd::\w+$')


def r06d(ctx, rep, cr):
    rep.rule('R06d', 'a stored vector is scored only if it has the query\'s length: every call from a VectorEngine search body to a dense '
                     'scorer (cosine_similarity, compute_score, dot_product, euclidean_distance, simd::*) is reachable only through the '
                     'equal edge of a comparison of two len() values — the SIMD kernels truncate to the shorter operand, so a vector of '
                     'another dimension gets a meaningless score and can displace a true neighbour. The scorers themselves and the '
                     'sparse re-ranking of HNSW candidates (own dimension handling) are outside the rule')
    n = 0
    for name, f in sorted(cr.fns.items()):
        if not name.startswith(VE):
            continue
        if DENSE_SCORER.search(A.parent_fn(name)) or A.parent_fn(name).endswith('::magnitude'):
            continue
        defs = None
        for k, c in enumerate(c_ for c_ in A.calls(f) if DENSE_SCORER.search(c_.resolved)):
            defs = defs or A.Defs(f)
            n += 1
            rep.analysed(f)
            ok = False
            for (a, s_) in A.must_pass_edges(f, c.bb):
                l = lib.switch_local(f, a)
                d = A.single_def(defs, l) if l is not None else None
                if not d or d[2] != 'st' or d[3][1][0] != 'bin' or d[3][1][1] not in ('Eq', 'Ne'):
                    continue
                t = f.bbs[a]['t']
                if not all(v == '0' for v, _ in t[2]):
                    continue
                x, y = lib.val_sig(f, defs, d[3][1][2]), lib.val_sig(f, defs, d[3][1][3])
                equal_edge = (s_ == t[3]) == (d[3][1][1] == 'Eq')
                if x[0] == 'len' and y[0] == 'len' and x != y and equal_edge:
                    ok = True
            if ok:
                rep.holds('R06d', f, 'score#%d' % k, 'behind len == len')
            else:
                rep.violation('R06d', f, 'unchecked-dimension', f.loc(c.line),
                              '%s is called on a stored vector on a path that has not compared its length with the query\'s: a vector '
                              'of another dimension (stored before the collection got a fixed dimension, or loaded from an index file) is '
                              'scored on a truncated prefix and can rank first' % lib.short(c.resolved))
    rep.floor('R06d', 'dense scoring calls in search bodies', n, 6)


def r06e(ctx, rep, cr):
    rep.rule('R06e', 'node ids and keys stay in step: the index builder pushes one key per vector it hands to insert_with_strategy, and the '
                     'node id an HNSW insert returns is its position — so (a) insert_with_strategy cannot return without an '
                     'HNSWIndex::insert* call on any arm of the strategy dispatch, and (b) in every VectorEngine body that pushes onto a key '
                     'list next to an insert (build_hnsw_index_with_options), no loop iteration pushes a key without passing the insert or '
                     'inserts without pushing. A vector that is silently left out of the index shifts every later key by one: searches '
                     'report other keys, with scores that are not theirs')
    INS = ('re', r'HNSWIndex::insert\w*$')
    f = rep.require_fn('R06e', cr, 'vector_engine::insert_with_strategy')
    n = 0
    if f is not None:
        rep.analysed(f)
        n += 1
        ins = A.calls_to(f, INS)
        R = A.reachable(f, [0], cut_blocks={c.bb for c in ins})
        if not ins or any(r in R for r in A.return_blocks(f)):
            rep.violation('R06e', f, 'return-without-insert', f.loc(),
                          'insert_with_strategy can return without inserting the vector, while its callers push the key for it: the key '
                          'list and the node ids drift apart')
        else:
            rep.holds('R06e', f, 'every arm inserts', '%d insert call(s)' % len(ins))
    for name, g in sorted(cr.fns.items()):
        if not name.startswith(VE) or '{closure' in name:
            continue
        iw = A.calls_to(g, ('re', r'vector_engine::insert_with_strategy$')) + A.calls_to(g, INS)
        if not iw:
            continue
        defs = A.Defs(g)
        pushes = [c for c in A.calls(g) if re.search(r'Vec::<T, A>::push$', c.generic) and c.arg_local(0) is not None and
                  any(k == 'key_mapping' and v[0] == A.origin_fields(g, c.arg_local(0), defs)[1] for k, v in g.d['names'].items())]
        if not pushes:
            continue
        dom = A.dominators(g)
        for k, c in enumerate(pushes):
            if not any((re.search(r'Iterator>?::next$', x.generic) or re.search(r'Iterator>?::next$', x.resolved)) and x.bb in dom[c.bb] for x in A.calls(g)):
                continue
            n += 1
            rep.analysed(g)
            mates = [x for x in iw if any((re.search(r'Iterator>?::next$', y.generic) or re.search(r'Iterator>?::next$', y.resolved)) and y.bb in dom[x.bb] and y.bb in dom[c.bb] for y in A.calls(g))]
            bad = None
            if not mates:
                bad = 'a key is pushed in a loop that does not insert'
            else:
                # same iteration: neither is reachable from the loop's Some edge with the other one cut … and back to the head
                for x in mates:
                    if lib.loop_iterations_skipping(g, x, also=()) is None and lib.loop_iterations_skipping(g, c, also=()) is None:
                        break
                else:
                    bad = 'an iteration can push a key without inserting its vector (or insert without pushing)'
            if bad:
                rep.violation('R06e', g, 'key-list-out-of-step', g.loc(c.line), bad)
            else:
                rep.holds('R06e', g, 'push#%d' % k, 'every iteration inserts and pushes')
    rep.floor('R06e', 'insert / key-push sites', n, 2)


def run(ctx, rep):
    cr = ctx.crate('vector_engine')
    r06a(ctx, rep, cr)
    r06b(ctx, rep, cr)
    r06c(ctx, rep, cr)
    r06d(ctx, rep, cr)
    r06e(ctx, rep, cr)
