"""C03 Two-phase commit — structural part."""
import re
import analyses as A
import lib
import tpc_rules as T

ASSUMPTIONS = ['atomic commitment over message interleavings is not decided here',
               'phase-assumption reachability treats tx.phase as constant between a function\'s own phase tests']
STORE_MUT = re.compile(r'^tensor_store::TensorStore::(put|delete|set|clear|restore|remove|update|insert|evict)\w*$')


def r03a(ctx, rep, cr, cg):
    rep.rule('R03a', 'TxParticipant::apply_operations has exactly one caller, TxParticipant::commit; nothing reachable from '
                     'TxParticipant::{prepare, abort, cleanup_stale, recover} reaches a TensorStore mutator except through UndoEntry::apply')
    ap = T.PART + 'apply_operations'
    if rep.require_fn('R03a', cr, ap) is None:
        return
    callers = sorted(cg.redges.get(ap, ()))
    if callers == [T.PART + 'commit']:
        rep.holds('R03a', ap, 'single caller', 'TxParticipant::commit')
    else:
        for c in callers:
            if c != T.PART + 'commit':
                rep.violation('R03a', c, 'apply_operations', cg.fns[c].loc() if c in cg.fns else '-',
                              'transaction writes are applied from %s, not only from the commit decision' % lib.short(c))
        if not callers:
            rep.violation('R03a', 'anchor-missing', 'apply_operations-callers', '-', 'anchor-missing: apply_operations has no caller')
    undo = {T.DT + 'UndoEntry::apply', T.DT + 'UndoEntry::apply_verified'}
    for start in ('prepare', 'abort', 'cleanup_stale', 'recover'):
        s = T.PART + start
        if rep.require_fn('R03a', cr, s) is None:
            continue
        p = cg.path(s, lambda n: STORE_MUT.match(n) is not None, cut=undo)
        if p:
            rep.violation('R03a', s, 'store-write', cg.fns[s].loc(),
                          'a store mutator is reachable from TxParticipant::%s outside the undo log: %s' % (start, ' → '.join(lib.short(x) for x in p)))
        else:
            rep.holds('R03a', s, 'no store write', 'only through UndoEntry::apply')
    # the apply path does write (positive control: the rule can see store writes)
    if not cg.path(ap, lambda n: STORE_MUT.match(n) is not None):
        rep.violation('R03a', 'anchor-missing', 'apply-reaches-store', '-', 'anchor-missing: apply_operations reaches no TensorStore mutator; the effect rule would be blind')


def r03b(ctx, rep, cr):
    rep.rule('R03b', 'TxParticipant::commit: apply_operations is reachable only through the Some-edge of prepared.remove (a duplicate '
                     'commit applies nothing), and every path from the apply to a return releases the lock')
    f = rep.require_fn('R03b', cr, T.PART + 'commit')
    if f is None:
        return
    uses, defs = A.Uses(f), A.Defs(f)
    rem = [c for c in A.calls_to(f, ('re', r'HashMap::<K, V, S, A>::remove$'))]
    app = A.calls_to(f, T.PART + 'apply_operations')
    rel = A.calls_to(f, ('re', r'LockManager::release_by_handle(_with_wait_cleanup)?$'))
    if not rem or not app or not rel:
        rep.violation('R03b', f, 'shape', f.loc(), 'anchor-missing: commit no longer has remove (%d) / apply (%d) / release (%d)' % (len(rem), len(app), len(rel)))
        return
    some = set()
    for c in rem:
        some |= A.call_outcome(f, c, uses).ok
    R = A.reachable(f, [0], cut_edges=some)
    if any(c.bb in R for c in app) or not some:
        rep.violation('R03b', f, 'apply-without-remove', f.loc(app[0].line), 'apply_operations is reachable without removing the prepared entry first: a duplicate commit would apply twice')
    else:
        rep.holds('R03b', f, 'remove→apply', 'apply only on the Some edge of prepared.remove')
    for c in app:
        R2 = A.reachable(f, [c.target], cut_blocks={r.bb for r in rel})
        rets = [r for r in A.return_blocks(f) if r in R2]
        if rets:
            rep.violation('R03b', f, 'apply-without-release', f.loc(c.line), 'a return (bb%s) is reachable after apply_operations without releasing the transaction\'s locks' % rets)
        else:
            rep.holds('R03b', f, 'apply→release', 'every exit after apply releases by handle')


def r03c(ctx, rep, cr):
    rep.rule('R03c', 'decision discipline, over every write to DistributedTransaction.phase in the workspace: (i) a write of Committing '
                     'is unreachable when the function is entered with the transaction in Aborting/Aborted/Committed, and a write of '
                     'Aborting is unreachable with Committing/Committed (the decision never changes); (ii) with the transaction in '
                     'Preparing, a write of Committing or Prepared is reachable only through the true edges of all_voted() and all_yes() '
                     '(commit only if every participant voted yes)')
    adt = cr.adts.get(T.PHASE_ENUM)
    if adt is None:
        rep.violation('R03c', 'anchor-missing', 'TxPhase', '-', 'anchor-missing: enum TxPhase not found')
        return
    nwrites = 0
    for f in cr.fns.values():
        pw = T.phase_writes(f)
        if not pw or f.file.endswith('tx_wal.rs'):
            continue
        rep.analysed(f)
        pa = T.PhaseAssumption(f, adt)
        uses = A.Uses(f)
        for k, (bb, line, v) in enumerate(pw):
            nwrites += 1
            if v is None:
                rep.notes.append('R03c: non-constant phase write in %s (recovery restore)' % f.name)
                continue
            forbidden = {'Committing': ['Aborting', 'Aborted', 'Committed'],
                         'Aborting': ['Committing', 'Committed'],
                         'Prepared': ['Committing', 'Committed', 'Aborting', 'Aborted']}.get(v, [])
            bad = []
            for ph in forbidden:
                R = A.reachable_cp(f, [0], cut_edges=pa.cut_edges(ph))
                if bb in R:
                    bad.append(ph)
            if bad:
                rep.violation('R03c', f, '%s-from-%s' % (v, '/'.join(bad)), f.loc(line),
                              'phase = %s is reachable when the transaction is already %s: the coordinator\'s decision can be reversed '
                              '(phase tests in this function: %d)' % (v, ' or '.join(bad), len(pa.tests)))
            elif forbidden:
                rep.holds('R03c', f, '%s#%d' % (v, k), 'unreachable from %s' % '/'.join(forbidden))
            if v in ('Committing', 'Prepared'):
                # from Preparing, only through all_voted ∧ all_yes
                cutp = pa.cut_edges('Preparing')
                Rp = A.reachable_cp(f, [0], cut_edges=cutp)
                if bb not in Rp:
                    rep.holds('R03c', f, '%s#%d all-yes' % (v, k), 'not reachable from Preparing at all')
                    continue
                miss = []
                for pred in ('all_voted', 'all_yes'):
                    te = set()
                    for c in A.calls_to(f, T.DT + 'DistributedTransaction::' + pred):
                        te |= A.call_outcome(f, c, uses).ok
                    R = A.reachable_cp(f, [0], cut_edges=cutp | te)
                    if bb in R:
                        miss.append(pred)
                if miss:
                    rep.violation('R03c', f, '%s-without-%s' % (v, '+'.join(miss)), f.loc(line),
                                  'phase = %s is reachable for a transaction still in Preparing without passing the true edge of %s(): '
                                  'commit can be decided although not every participant voted yes' % (v, '() and '.join(miss)))
                else:
                    rep.holds('R03c', f, '%s#%d all-yes' % (v, k), 'through all_voted() ∧ all_yes()')
    rep.floor('R03c', 'writes to DistributedTransaction.phase', nwrites, 6)


def r03d(ctx, rep, cr):
    rep.rule('R03d', 'every write of Committing/Aborting that is reachable for a transaction already logged as Prepared is reachable only '
                     'through the Ok-edge of log_wal_entry(PhaseChange{to: that phase}); in commit/abort the TxComplete record is logged '
                     '(Ok-edge) before any lock release and before pending.remove')
    adt = cr.adts.get(T.PHASE_ENUM)
    for f in cr.fns.values():
        pw = [x for x in T.phase_writes(f) if x[2] in ('Committing', 'Aborting')]
        if not pw or f.file.endswith('tx_wal.rs'):
            continue
        pa = T.PhaseAssumption(f, adt)
        defs, uses = A.Defs(f), A.Uses(f)
        cutp = pa.cut_edges('Prepared')
        for k, (bb, line, v) in enumerate(pw):
            Rp = A.reachable_cp(f, [0], cut_edges=cutp)
            if bb not in Rp:
                rep.holds('R03d', f, '%s#%d' % (v, k), 'not reachable for a Prepared transaction (presumed abort covers Preparing)')
                continue
            ok = set()
            for c in T.log_calls(f, defs, 'PhaseChange', to=v):
                ok |= A.call_outcome(f, c, uses).ok
            R = A.reachable_cp(f, [0], cut_edges=cutp | ok)
            if bb in R:
                rep.violation('R03d', f, '%s-unlogged' % v, f.loc(line),
                              'a Prepared transaction is moved to %s with no successfully logged PhaseChange: after a restart it comes back '
                              'as Prepared and the opposite outcome is still possible' % v)
            else:
                rep.holds('R03d', f, '%s#%d' % (v, k), 'after Ok log_wal_entry(PhaseChange→%s)' % v)
    for name in ('commit', 'abort'):
        f = rep.require_fn('R03d', cr, T.COORD + name)
        if f is None:
            continue
        defs, uses = A.Defs(f), A.Uses(f)
        tc = T.log_calls(f, defs, 'TxComplete')
        ok = set()
        for c in tc:
            ok |= A.call_outcome(f, c, uses).ok
        rel = A.calls_to(f, ('re', r'LockManager::release'))
        rem = T.pending_removes(f, defs)
        R = A.reachable(f, [0], cut_edges=ok)
        late = [c for c in rel + rem if c.bb in R]
        if not tc or not ok:
            rep.violation('R03d', f, 'TxComplete', f.loc(), '%s no longer logs TxComplete with a propagated result' % name)
        elif late:
            rep.violation('R03d', f, 'release-before-TxComplete', f.loc(late[0].line),
                          'locks are released / the transaction forgotten on a path that has not successfully logged TxComplete')
        else:
            rep.holds('R03d', f, 'TxComplete→release', '%d releases, %d removes after Ok TxComplete' % (len(rel), len(rem)))


def r03e(ctx, rep, cr):
    rep.rule('R03e', 'every pending.remove that is reachable for a transaction in Prepared/Committing/Aborting (a logged, undecided or '
                     'uncompleted transaction) is reachable only through the Ok-edge of log_wal_entry(TxComplete), except in the '
                     'recovery-completion functions complete_commit/complete_abort (the outcome is already logged and re-derived on restart)')
    adt = cr.adts.get(T.PHASE_ENUM)
    n = 0
    for f in T.coordinator_fns(cr) + [g for n2, g in cr.fns.items() if n2.startswith(T.COORD) and '{closure' in n2]:
        defs = A.Defs(f)
        rems = T.pending_removes(f, defs)
        if not rems:
            continue
        rep.analysed(f)
        uses = A.Uses(f)
        pa = T.PhaseAssumption(f, adt)
        ok = set()
        for c in T.log_calls(f, defs, 'TxComplete'):
            ok |= A.call_outcome(f, c, uses).ok
        for k, c in enumerate(rems):
            n += 1
            if f.name in (T.COORD + 'complete_commit', T.COORD + 'complete_abort'):
                rep.holds('R03e', f, 'remove#%d' % k, 'recovery completion (exception table)')
                continue
            bad = []
            for ph in ('Prepared', 'Committing', 'Aborting'):
                R = A.reachable_cp(f, [0], cut_edges=pa.cut_edges(ph) | ok)
                if c.bb in R and not _ids_only_from_unreachable(f, defs, pa, ph, c) and not _ids_filtered_out(cr, f, defs, adt, ph, c):
                    bad.append(ph)
            # a removal that hands the (undecided or aborting) transaction to the abort broadcaster is covered by the
            # AbortIntent record that process_pending_aborts logs before sending (R13c) and recovery consumes (R13b)
            if bad and 'Committing' not in bad and _queues_abort(f, defs, c):
                rep.holds('R03e', f, 'remove#%d' % k, 'not reachable for Committing; queued for the abort broadcast (AbortIntent is the log record)')
                continue
            if bad:
                rep.violation('R03e', f, 'remove-unlogged', f.loc(c.line),
                              'a transaction in %s is removed from pending with no logged TxComplete: after a restart it is resurrected '
                              '(as Prepared/Committing) although its participants were already told the outcome' % '/'.join(bad))
            else:
                rep.holds('R03e', f, 'remove#%d' % k, 'after Ok TxComplete, or unreachable for logged phases')
    rep.floor('R03e', 'pending.remove sites', n, 4)


def _ids_filtered_out(cr, f, defs, adt, phase, rem_call):
    """cleanup_timeouts(): the removed ids are collected through Iterator::filter with a closure that
    returns false for a transaction in `phase`."""
    if len(rem_call.args) < 2 or rem_call.args[1][0] == 'k':
        return False
    sl = A.backward_slice(f, [rem_call.args[1]], defs)
    for c in A.calls(f):
        if c.dest[0] in sl.locals and re.search(r'Iterator::filter$|Iterator>::filter$', c.generic) and len(c.args) > 1 and c.args[1][0] != 'k':
            cty = f.locals[c.args[1][1][0]]
            for h in A.with_closures(cr.fns, f.name):
                if h.name == f.name or h.locals[0] != 'bool':
                    continue
                d = A.single_def(defs, c.args[1][1][0])
                if not (d and d[2] == 'st' and d[3][1][0] == 'agg' and d[3][1][1].endswith(h.name)):
                    continue
                pa = T.PhaseAssumption(h, adt)
                if not pa.tests:
                    continue
                vals = A.return_bool_values(h, cut_edges=pa.cut_edges(phase))
                if vals and vals <= {False}:
                    return True
    return False


def _queues_abort(f, defs, rem_call):
    pushes = []
    for c in A.calls_to(f, ('re', r'Vec::<T, A>::push$')):
        a = c.arg_local(0)
        if a is None:
            continue
        fs, root = A.origin_fields(f, a, defs)
        fs = A.place_fields(c.args[0][1]) + fs
        if any(x.endswith('DistributedTxCoordinator.pending_aborts') for x in fs):
            pushes.append(c)
        else:
            for g in A.guards(f, defs):
                if g.local == root and any(x.endswith('DistributedTxCoordinator.pending_aborts') for x in g.lock_fields):
                    pushes.append(c)
    if not pushes:
        return False
    uses = A.Uses(f)
    o = A.call_outcome(f, rem_call, uses)
    starts = [t for (_, t) in o.ok] or ([rem_call.target] if rem_call.target is not None else [])
    R = A.reachable(f, starts, cut_blocks={c.bb for c in pushes})
    nexts = {c.bb for c in A.calls_to(f, ('re', r'Iterator>::next$'))}
    return not any(r in R for r in A.return_blocks(f)) and not (nexts & R)


def _ids_only_from_unreachable(f, defs, pa, phase, rem_call):
    """recover(): the removed ids come from a vector that is only pushed to in arms
    unreachable under the assumed phase."""
    if len(rem_call.args) < 2 or rem_call.args[1][0] == 'k':
        return False
    sl = A.backward_slice(f, [rem_call.args[1]], defs)
    vecs = [l for l in sl.locals if f.locals[l].startswith('std::vec::Vec<u64')]
    if not vecs:
        return False
    R = A.reachable_cp(f, [0], cut_edges=pa.cut_edges(phase))
    pushes = []
    for c in A.calls_to(f, ('re', r'Vec::<T, A>::push$')):
        a = c.arg_local(0)
        if a is None:
            continue
        tg = defs.ref_targets(a)
        if tg & set(vecs):
            pushes.append(c)
    if not pushes:
        return False
    return all(c.bb not in R for c in pushes)


def r03g(ctx, rep, cr):
    rep.rule('R03g', 'decision and removal under one lock: in commit / abort / force_resolve / complete_commit / complete_abort one write '
                     'guard on `pending` is live, on every path, from the first read of the transaction\'s phase through every decision '
                     'record (PhaseChange / TxComplete) to the removal from pending — otherwise a commit and an abort of the same '
                     'transaction can both pass their phase test')
    import lockgraph as LG
    for name in ('commit', 'abort', 'force_resolve', 'complete_commit', 'complete_abort'):
        f = rep.require_fn('R03g', cr, T.COORD + name)
        if f is None:
            continue
        defs = A.Defs(f)
        gs = [g for g in A.guards(f, defs) if (LG.lock_id(g) or '').endswith('DistributedTxCoordinator.pending')]
        wg = [g for g in gs if A.guard_kind(g.ty) == 'RwLockWriteGuard' and g.acq_calls]
        sites = []
        for i, b in enumerate(f.bbs):
            if b['cleanup']:
                continue
            for j, st in enumerate(b['s']):
                if any(T.PHASE_FIELD in A.place_fields(pl) for pl in A.rvalue_places(st[1])) or (T.PHASE_FIELD in A.place_fields(st[0])):
                    sites.append(((i, j), 'phase access @%d' % st[2]))
            t = b['t']
            if t[0] == 'call' and not t[8]:
                for a in t[3]:
                    if a[0] != 'k' and T.PHASE_FIELD in A.place_fields(a[1]):
                        sites.append(((i, len(b['s'])), 'phase read @%d' % t[7]))
        for c in T.log_calls(f, defs, 'PhaseChange') + T.log_calls(f, defs, 'TxComplete'):
            sites.append(((c.bb, len(f.bbs[c.bb]['s'])), 'decision record @%d' % c.line))
        rems = T.pending_removes(f, defs)
        for c in rems:
            sites.append(((c.bb, len(f.bbs[c.bb]['s'])), 'pending.remove @%d' % c.line))
        if not rems or len(sites) < 2:
            rep.violation('R03g', f, 'shape', f.loc(), 'anchor-missing: no removal from pending (%d) / phase access in %s' % (len(rems), name))
            continue
        ok = False
        miss = []
        for g in wg:
            # guards moved into drop() keep the same lock: union of live ranges of guards with this lock acquired by g's call
            lv = A.live_positions(f, g.acq, g.kills, must=True)
            out = [what for (pos, what) in sites if not A.live_at(lv, pos)]
            if not out:
                ok = True
            else:
                miss = out
        if ok:
            rep.holds('R03g', f, 'one critical section', '%d sites under one pending write guard' % len(sites))
        else:
            rep.violation('R03g', f, 'split-critical-section', f.loc(),
                          '%s does not hold one write guard on `pending` across its phase test, decision records and removal (outside the guard: %s; '
                          'write guards on pending: %d): a concurrent commit/abort of the same transaction can pass its own phase test in between and both '
                          'decisions are announced' % (name, (miss or ['no write guard'])[:3], len(wg)))


VOTES = 'DistributedTransaction.votes'


def _votes_calls(f, defs, meth):
    out = []
    for c in A.calls(f):
        if not re.search(r'HashMap::<K, V, S, A>::%s$' % meth, c.generic) or not c.args or c.args[0][0] == 'k':
            continue
        fs = A.place_fields(c.args[0][1])
        root = None
        if not fs:
            fs, root = A.origin_fields(f, c.args[0][1][0], defs)
        if any(x.endswith(VOTES) for x in fs):
            out.append((c, root))
    return out


def _guarded_by_absent_test(f, defs, uses, bb):
    """is bb reachable only through the `absent` edge of a contains_key(votes) test (unreachable once those edges are cut)?"""
    cut = set()
    for (c, _r) in _votes_calls(f, defs, 'contains_key'):
        cut |= A.call_outcome(f, c, uses).err
    return bool(cut) and bb not in A.reachable(f, [0], cut_edges=cut)


def r03h(ctx, rep, cr, cg):
    rep.rule('R03h', 'a recorded vote is never replaced: every HashMap::insert into DistributedTransaction.votes is either on a '
                     'transaction object built in the same function (recovery rebuilding it from the log) or reachable only through the '
                     '`absent` edge of a contains_key test of that map — in the function itself or at every call site of it (callers to depth 2)')
    n = 0
    for name, f in sorted(cr.fns.items()):
        defs = A.Defs(f)
        ins = _votes_calls(f, defs, 'insert')
        if not ins:
            continue
        rep.analysed(f)
        uses = A.Uses(f)
        for k, (c, root) in enumerate(ins):
            n += 1
            # fresh object?
            fresh = False
            base = root if root is not None else c.args[0][1][0]
            seen = set()
            work = [base]
            while work:
                l = work.pop()
                if l in seen:
                    continue
                seen.add(l)
                for d in defs.defs.get(l, []):
                    if d[2] == 'call' and d[3].resolved.endswith('DistributedTransaction::new'):
                        fresh = True
                    elif d[2] == 'st' and d[3][1][0] in ('ref', 'use'):
                        pl = d[3][1][1] if d[3][1][0] == 'ref' else (d[3][1][1][1] if d[3][1][1][0] != 'k' else None)
                        if pl is not None:
                            work.append(pl[0])
            if fresh:
                rep.holds('R03h', f, 'insert#%d' % k, 'into a transaction object built in this function')
                continue
            if _guarded_by_absent_test(f, defs, uses, c.bb):
                rep.holds('R03h', f, 'insert#%d' % k, 'behind the absent edge of contains_key')
                continue

            def callers_guarded(fn_name, depth):
                callers = [x for x in cg.redges.get(fn_name, ()) if x in cg.fns]
                if not callers:
                    return None
                for h in callers:
                    hf = cg.fns[h]
                    hd, hu = A.Defs(hf), A.Uses(hf)
                    sites = cg.sites.get((h, fn_name), [])
                    if not sites:
                        return h
                    for s_ in sites:
                        if _guarded_by_absent_test(hf, hd, hu, s_.bb):
                            continue
                        if depth > 0:
                            r = callers_guarded(h, depth - 1)
                            if r is None and cg.redges.get(h):
                                continue
                            return h
                        return h
                return None
            bad = callers_guarded(f.name, 2)
            if not cg.redges.get(f.name):
                rep.holds('R03h', f, 'insert#%d' % k, 'no caller')
            elif bad is None:
                rep.holds('R03h', f, 'insert#%d' % k, 'every call site is behind the absent edge of contains_key')
            else:
                rep.violation('R03h', f, 'vote-overwrite', f.loc(c.line),
                              'votes.insert runs for a shard whose vote may already be recorded (%s reaches it with no preceding '
                              'contains_key test): HashMap::insert replaces the stored vote, so a late or duplicate message flips an accepted '
                              'No into Yes and the coordinator commits without every participant having voted yes' % lib.short(bad))
    rep.floor('R03h', 'inserts into DistributedTransaction.votes', n, 1)


NARROWING = re.compile(r'Iterator::(filter|filter_map|skip|skip_while|take|take_while|step_by|flat_map|find)$')


def r03i(ctx, rep, cr):
    rep.rule('R03i', 'the participant locks every key the transaction touches: in TxParticipant::prepare the key list handed to '
                     'LockManager::try_lock is built from request.operations by mapping each operation to its affected_key, with no '
                     'narrowing adaptor (filter, filter_map, skip, take, …) on the way — abort / cleanup / recover restore the undo '
                     'pre-image of every operation unconditionally, so an unlocked key can be overwritten by another transaction\'s commit '
                     'and then reverted by a late abort')
    f = rep.require_fn('R03i', cr, T.PART + 'prepare')
    if f is None:
        return
    defs = A.Defs(f)
    tl = A.calls_to(f, ('re', r'LockManager::try_lock\w*$'))
    if not tl:
        rep.violation('R03i', f, 'no-lock', f.loc(), 'anchor-missing: prepare no longer calls LockManager::try_lock')
        return
    for k, c in enumerate(tl):
        keys = c.args[2] if len(c.args) > 2 else None
        if keys is None or keys[0] == 'k':
            rep.unresolved_instance('R03i', f, 'try_lock#%d' % k, 'key argument not recognised')
            continue
        sl = A.backward_slice(f, [keys], defs)
        narrowing = sorted(x for x in sl.calls if NARROWING.search(x))
        from_ops = any(x.endswith('PrepareRequest.operations') for x in sl.fields)
        # the mapping closure calls affected_key
        maps_key = False
        for h in A.with_closures(cr.fns, f.name):
            if h.name != f.name and A.calls_to(h, ('re', r'Transaction::affected_key$')):
                maps_key = True
        if from_ops and maps_key and not narrowing:
            rep.holds('R03i', f, 'try_lock#%d' % k, 'keys = operations.map(affected_key), unfiltered')
        elif not from_ops or not maps_key:
            rep.violation('R03i', f, 'lock-keys-source', f.loc(c.line), 'the locked key list is not derived from request.operations through affected_key')
        else:
            rep.violation('R03i', f, 'lock-keys-narrowed', f.loc(c.line),
                          'the key list that is locked passes through %s: some operations\' keys are not locked although their pre-image is '
                          'recorded and restored on abort — a concurrent transaction commits a write to such a key and a delayed abort of '
                          'this one reverts it on this shard only' % ', '.join(lib.short(x) for x in narrowing))


def r03j(ctx, rep, cr):
    rep.rule('R03j', 'a commit needs the vote of every participant, not a number of votes: DistributedTransaction::all_voted looks each '
                     'participant up in `votes` (a map lookup on DistributedTransaction.votes in the function or in the closure it hands to '
                     'the iteration over `participants`) — or, if it merely compares sizes, every insert into `votes` is reachable only '
                     'through a membership test of the voting shard in `participants`. record_vote does not check that the voter is a '
                     'participant (a mislabelled or stray response is stored under its shard id), so a count can be reached while a '
                     'participant has not voted, and the coordinator commits without it')
    DTX = T.DT + 'DistributedTransaction'
    f = rep.require_fn('R03j', cr, DTX + '::all_voted')
    if f is None:
        return
    rep.analysed(f)

    def on_field(g, c, field):
        a = c.arg_local(0)
        if a is None:
            return False
        fs, _ = A.origin_fields(g, a, A.Defs(g))
        fs = A.place_fields(c.args[0][1]) + fs
        return any(x == field for x in fs)
    lookup = False
    for g in A.with_closures(cr.fns, f.name):
        for c in A.calls_to(g, ('re', r'HashMap::<K, V, S(, A)?>::(contains_key|get)$')):
            # inside the closure the map is reached through the captured `self`
            if on_field(g, c, DTX + '.votes') or any(x == DTX + '.votes' for x in A.field_reads(g)):
                lookup = True
    if lookup:
        rep.holds('R03j', f, 'all_voted', 'each participant is looked up in votes')
        return
    # size comparison: then the voters must be restricted to the participants where votes are inserted
    guarded = True
    sites = 0
    for name, g in sorted(cr.fns.items()):
        if not name.startswith(T.DT) or '{closure' in name:
            continue
        gd = None
        for c in A.calls_to(g, ('re', r'HashMap::<K, V, S(, A)?>::insert$')):
            if not on_field(g, c, DTX + '.votes'):
                continue
            sites += 1
            gd = gd or A.Defs(g)
            uses = A.Uses(g)
            cut = set()
            for m in A.calls_to(g, ('re', r'(slice::<impl \[T\]>|Vec::<T, A>|HashSet::<T, S(, A)?>)::contains$')):
                if on_field(g, m, DTX + '.participants'):
                    cut |= set(A.call_outcome(g, m, uses).ok)
            if not cut or c.bb in A.reachable(g, [0], cut_edges=cut):
                guarded = False
    if sites and guarded:
        rep.holds('R03j', f, 'all_voted', 'size comparison, and only participants can vote (%d insert site(s) guarded)' % sites)
    else:
        rep.violation('R03j', f, 'all-voted-by-count', f.loc(),
                      'all_voted no longer looks the participants up in `votes`, and votes are stored without checking that the voter is a '
                      'participant: a vote from a non-participant shard completes the count, the transaction becomes Prepared and commits '
                      'while a real participant has not voted (and may vote no)')


def run(ctx, rep):
    cr = ctx.crate('tensor_chain')
    cg = ctx.callgraph(['tensor_chain'])
    r03a(ctx, rep, cr, cg)
    r03b(ctx, rep, cr)
    r03c(ctx, rep, cr)
    r03d(ctx, rep, cr)
    r03e(ctx, rep, cr)
    r03g(ctx, rep, cr)
    r03h(ctx, rep, cr, cg)
    r03i(ctx, rep, cr)
    r03j(ctx, rep, cr)
    import c13
    c13.r13d(ctx, rep, cr)   # the decision never changes afterwards: no phase regression behind a logged decision
    c13.r13h(ctx, rep, cr)   # … and the logged decision is in memory before any return
