"""C10 Raft restart never forgets a vote, a term or an acknowledged entry."""
import re
import analyses as A
import lib
import witness
import raft_rules
import wal_rules

PS = raft_rules.PS
GROW = re.compile(r'Vec::<T, A>::(push|extend|extend_from_slice|insert|append|extend_from_within|resize)$|Extend<.*>>::extend$')
SHRINK = re.compile(r'Vec::<T, A>::(pop|truncate|clear|drain|remove)$')
ASSUMPTIONS = ['the Raft WAL append is durable when it returns Ok (sync policy is RaftWal\'s own)']
# an append split into a buffered write and a later sync (seen after inlining helpers that are new): the durability point is the
# Ok edge of sync_all on the log writer
SYNC = ('re', r'WalWriter>?::sync_all$|fs::File::sync_(all|data)$')


def _persist_wrappers(rep, cr):
    """RaftNode::persist_* methods that return Ok only after a successful Raft WAL append (or when no WAL is configured):
    a call to one of them counts as a persist; persist_log_entry must be among them."""
    out = []
    for name, f in sorted(cr.fns.items()):
        if not re.match(r'tensor_chain::raft::RaftNode::persist_\w+$', name) or name.endswith('persist_term_and_vote'):
            continue
        uses = A.Uses(f)
        app = A.calls_to(f, ('re', r'RaftWal.*::append$')) + A.calls_to(f, SYNC)
        cut = set()
        passthrough = set()
        for c in app:
            o = A.call_outcome(f, c, uses)
            cut |= o.ok
            if not o.ok and o.returned:
                # the append's Result is the function's result (`wal.lock().append(..).map_err(..)` as the tail expression)
                passthrough.add(c.bb)
        none_edges = set()
        for b in f.bbs:
            if b['cleanup']:
                continue
            for st in b['s']:
                if st[1][0] == 'disc' and any(x.endswith('RaftNode.wal') for x in A.place_fields(st[1][1])):
                    none_edges |= A.outcome_edges(f, st[0][0], kind='disc_option', uses=uses).err
        if app and (cut or passthrough) and not lib.success_return_reachable(f, [0], cut_edges=cut | none_edges, cut_blocks=passthrough):
            out.append(name)
    if 'tensor_chain::raft::RaftNode::persist_log_entry' not in out:
        rep.violation('R10a', 'anchor-missing', 'persist_log_entry', '-', 'anchor-missing: persist_log_entry is not a function that returns Ok only after a successful WAL append')
    rep.notes.append('R10a: persist wrappers = %s' % [lib.short(x) for x in out])
    return out


def r10a(ctx, rep):
    rep.rule('R10a', 'every site that adds entries to PersistentState.log (Vec::push/extend/insert on the field, or assignment of '
                     'the field) either follows a successful persist, or every path from it to a success exit passes the Ok-edge '
                     'of persist_log_entry / a Raft WAL append, or a rollback (pop/truncate) followed by a failure exit')
    cr = ctx.crate('tensor_chain')
    n = 0
    wrappers = _persist_wrappers(rep, cr)
    for f in cr.fns.values():
        sites = []
        uses = None
        for (bb, idx, fs, dl, line) in A.field_mut_borrows(f):
            if PS + '.log' not in fs:
                continue
            uses = uses or A.Uses(f)
            for u in uses.uses.get(dl, []):
                if u[0] == 'call' and GROW.search(u[3].generic):
                    sites.append((u[3].bb, u[3].line, u[3].generic.split('::')[-1], u[3].target))
        for w in A.field_writes(f):
            if w[2] == PS + '.log' and w[3][1][-1] == PS + '.log':
                sites.append((w[0], w[5], 'assign', None))
        if not sites:
            continue
        rep.analysed(f)
        uses = uses or A.Uses(f)
        pcs = [c for w in wrappers for c in A.calls_to(f, w)] + \
            A.calls_to(f, ('re', r'raft_wal::RaftWal(::<.*>)?::append$')) + A.calls_to(f, SYNC)
        ok_edges = set()
        for pc in pcs:
            ok_edges |= A.call_outcome(f, pc, uses).ok
        # rollback blocks: pop / truncate on the log
        rb = set()
        for (bb, idx, fs, dl, line) in A.field_mut_borrows(f):
            if PS + '.log' in fs:
                for u in uses.uses.get(dl, []):
                    if u[0] == 'call' and SHRINK.search(u[3].generic):
                        rb.add(u[3].bb)
        # `if let Some(ref wal) = self.wal { wal.lock().append(..)?; }` written inline: with no WAL configured there is nothing to persist
        none_edges = set()
        for b_ in f.bbs:
            if b_['cleanup']:
                continue
            for st in b_['s']:
                if st[1][0] == 'disc' and any(x.endswith('RaftNode.wal') for x in A.place_fields(st[1][1])):
                    none_edges |= A.outcome_edges(f, st[0][0], kind='disc_option', uses=uses).err
        ok_edges = ok_edges | none_edges
        Rentry = A.reachable(f, [0], cut_edges=ok_edges)
        for k, (bb, line, kind, target) in enumerate(sorted(sites)):
            n += 1
            site = '%s#%d' % (kind, k)
            if bb not in Rentry:
                rep.holds('R10a', f, site, 'persist succeeded before the entry is added')
                continue
            start = [target] if target is not None and target >= 0 else A.succs(f, bb)
            if kind == 'assign':
                start = [bb]
                # the assignment itself is in bb; a persist earlier in the same block cannot exist (calls end blocks)
            rets = lib.success_return_reachable(f, start, cut_edges=ok_edges, cut_blocks=rb)
            if rets:
                # the failed persist may come back as a computed value (`self.sync_wal().is_ok()`): follow the value
                rets = lib.success_returns_by_value(f, start, cut_edges=ok_edges, cut_blocks=rb)
            if rets:
                rep.violation('R10a', f, 'log-' + kind, f.loc(line),
                              'entries are added to the in-memory Raft log (%s) and a success return (bb%s) is reachable without a '
                              'successful persist_log_entry / WAL append: a restart forgets an entry the node accepted' % (kind, rets))
            else:
                rep.holds('R10a', f, site, 'every success exit after the %s passes a successful persist (or a rollback)' % kind)
    rep.floor('R10a', 'sites adding to PersistentState.log', n, 2)


def r10c(ctx, rep):
    rep.rule('R10c', 'every RaftWalEntry variant the node constructs has an arm with an effect in RaftRecoveryState::from_entries, '
                     'and every same-term overwrite of the recovered vote is guarded by term-greater or voted_for.is_none() '
                     '(first vote of a term wins)')
    cr = ctx.crate('tensor_chain')
    enum = cr.adts.get('tensor_chain::raft_wal::RaftWalEntry')
    f = rep.require_fn('R10c', cr, 'tensor_chain::raft_wal::RaftRecoveryState::from_entries')
    if f is None or enum is None:
        if enum is None:
            rep.violation('R10c', 'anchor-missing', 'RaftWalEntry', '-', 'anchor-missing: enum RaftWalEntry not found')
        return
    variants = {v['d']: v['n'] for v in enum['variants']}
    written = {}
    for g in cr.fns.values():
        if g.file.endswith('raft_wal.rs'):
            continue
        for b in g.bbs:
            if b['cleanup']:
                continue
            for st in b['s']:
                if st[1][0] == 'agg' and st[1][1].startswith('tensor_chain::raft_wal::RaftWalEntry::'):
                    written.setdefault(st[1][1].split('::')[-1], (g, st[2]))
    rep.floor('R10c', 'RaftWalEntry variants constructed by the node', len(written), 3)
    # the dispatch switch: discriminant of a RaftWalEntry place
    ds = lib.enum_dispatches(f, 'tensor_chain::raft_wal::RaftWalEntry')
    sw = ds[0] if ds else None
    if sw is None:
        rep.violation('R10c', f, 'dispatch', f.loc(), 'anchor-missing: no switch on the RaftWalEntry discriminant in from_entries')
        return
    dom = A.dominators(f)
    loop_heads = {c.bb for c in A.calls_to(f, ('re', r'Iterator>::next$|Iterator::next$')) if c.bb in dom[sw[0]]}
    arms = {}
    listed = dict(sw[1][2])
    for d, name in variants.items():
        arms[name] = listed.get(d, sw[1][3])
    RS = 'tensor_chain::raft_wal::RaftRecoveryState.'
    for name, (g, line) in sorted(written.items()):
        tb = arms.get(name)
        R = A.reachable(f, [tb], cut_blocks=loop_heads | {sw[0]})
        eff = []
        for b in R:
            for st in f.bbs[b]['s']:
                if any(x.startswith(RS) for x in A.place_fields(st[0])):
                    eff.append('write ' + A.place_fields(st[0])[-1].split('.')[-1])
            t = f.bbs[b]['t']
            if t[0] == 'call' and re.search(r'BTreeMap.*::(insert|remove|split_off|retain|clear|append|extend|pop_last|pop_first)$|clone_from$|Vec.*::(push|truncate|clear|retain|drain|extend\w*)$|HashMap.*::(insert|remove|retain|clear)$', t[1]):
                eff.append('call ' + t[1].split('::')[-1])
        if eff:
            rep.holds('R10c', f, 'arm ' + name, 'effects: %s' % sorted(set(eff))[:4])
        else:
            rep.violation('R10c', f, 'arm-' + name, f.loc(),
                          'the node writes RaftWalEntry::%s (%s) but recovery has no effect for it: the record is lost on restart' % (name, g.loc(line)))
    # first vote of a term wins
    defs = A.Defs(f)
    cd = A.control_deps(f)
    muts = []
    for w in A.field_writes(f):
        if w[2] == RS + 'voted_for':
            muts.append((w[0], w[5]))
    for (bb, idx, fs, dl, line) in A.field_mut_borrows(f):
        if fs and fs[-1] == RS + 'voted_for':
            muts.append((bb, line))
    rep.floor('R10c', 'recovered-vote mutation sites', len(muts), 2)
    for k, (bb, line) in enumerate(sorted(set(muts))):
        ok = False
        why = []
        # walk up the control-dependence chain (bounded) looking for the guarding comparison
        frontier, seen = [bb], set()
        depth = 0
        while frontier and depth < 4 and not ok:
            nxt = []
            for x in frontier:
                for (a, s) in cd.get(x, ()):
                    if a in seen:
                        continue
                    seen.add(a)
                    l = lib.switch_local(f, a)
                    if l is None:
                        continue
                    sig = lib.cmp_sig(f, defs, l)
                    if sig and sig[0] == 'Gt' and any(x2.endswith('.current_term') for x2 in sig[2]) and raft_rules._nonzero_edge(f, a, s):
                        ok = True
                        why.append('term-greater')
                    d = A.single_def(defs, l)
                    if d and d[2] == 'call' and d[3].generic.endswith('is_none') and raft_rules._nonzero_edge(f, a, s):
                        fs, _ = A.origin_fields(f, d[3].arg_local(0), defs)
                        if any(x2.endswith('.voted_for') for x2 in fs + A.place_fields(d[3].args[0][1])):
                            ok = True
                            why.append('voted_for.is_none()')
                    if not ok and l is not None:
                        nxt.append(a)
            frontier = nxt
            depth += 1
        if ok:
            rep.holds('R10c', f, 'vote-mutation#%d' % k, 'guarded by ' + '/'.join(why))
        else:
            rep.violation('R10c', f, 'vote-overwrite', f.loc(line),
                          'recovery overwrites the recovered vote without a term-greater or voted_for.is_none() guard: '
                          'a later record of the same term can replace the first vote')


def r10d(ctx, rep):
    rep.rule('R10d', 'what recovery read is what the node starts with: in RaftNode::with_wal the term and the vote handed to with_state are '
                     'RaftRecoveryState.current_term and .voted_for themselves — moved or copied, with no call (filter, map, take, '
                     'unwrap_or, …) on the way. A vote that is dropped or rewritten between the log and memory (e.g. a recovered vote for '
                     'the node itself) lets the restarted node vote again in the same term')
    cr = ctx.crate('tensor_chain')
    f = rep.require_fn('R10d', cr, 'tensor_chain::raft::RaftNode::with_wal')
    if f is None:
        return
    defs = A.Defs(f)
    ws = A.calls_to(f, 'tensor_chain::raft::RaftNode::with_state')
    if not ws:
        rep.violation('R10d', f, 'with_state', f.loc(), 'anchor-missing: with_wal no longer builds the node through with_state')
        return
    RS = 'tensor_chain::raft_wal::RaftRecoveryState.'
    c = ws[0]
    found = {}
    for k, a in enumerate(c.args):
        if a[0] == 'k':
            continue
        flds, params, callees = lib.provenance_fields(f, defs, a)
        for nm in ('current_term', 'voted_for'):
            if RS + nm in flds:
                found[nm] = (k, sorted(x for x in callees if not re.search(r'RaftRecoveryState::from_wal$|RaftWal.*::open\w*$|Try>::branch$|from_residual$', x)))
    for nm in ('current_term', 'voted_for'):
        if nm not in found:
            rep.violation('R10d', f, 'lost-' + nm, f.loc(c.line), 'the recovered %s does not reach with_state' % nm)
        elif found[nm][1]:
            rep.violation('R10d', f, 'rewritten-' + nm, f.loc(c.line),
                          'the recovered %s passes through %s before it reaches with_state: what the node persisted is not what it '
                          'restarts with' % (nm, ', '.join(lib.short(x) for x in found[nm][1])))
        else:
            rep.holds('R10d', f, nm, 'argument %d of with_state is the recovered field itself' % found[nm][0])


def r10e(ctx, rep):
    rep.rule('R10e', 'a log that is replaced wholesale is persisted wholesale: in every RaftNode function that assigns a collection to '
                     'PersistentState.log and persists entries itself, (a) each persist_log_entry argument is an element of that same '
                     'collection, reached with no narrowing adaptor (filter, skip, take, …), and (b) the index handed to '
                     'persist_log_truncate is a constant or derives from that collection — not from the old log or the snapshot '
                     'metadata. A restart rebuilds the log from the WAL alone: an entry that is installed but skipped (because an entry with '
                     'that index, of an older term, was already logged) comes back as the old entry although the new one was acknowledged')
    cr = ctx.crate('tensor_chain')
    LOGF = 'tensor_chain::raft::PersistentState.log'
    NARROW = re.compile(r'Iterator::(filter|filter_map|skip|skip_while|take|take_while|step_by|flat_map|find)$')
    n = 0
    for name, f in sorted(cr.fns.items()):
        if not name.startswith('tensor_chain::raft::RaftNode::') or '{closure' in name:
            continue
        ws = [w for w in A.field_writes(f) if w[2] == LOGF and w[3][1] and w[3][1][-1] == LOGF and w[4] and w[4][0] == 'use' and w[4][1][0] in ('c', 'm')]
        pe = A.calls_to(f, ('re', r'RaftNode::persist_log_entry$'))
        # `entries.iter().try_for_each(|e| self.persist_log_entry(e))`: the persisting call sits in a closure; what is persisted is
        # what the iterator handed to the adaptor yields
        via_closure = []
        for h in A.with_closures(cr.fns, name):
            if h.name == name or not A.calls_to(h, ('re', r'RaftNode::persist_log_entry$')):
                continue
            for i_, b_ in enumerate(f.bbs):
                for st_ in b_['s']:
                    if st_[1][0] == 'agg' and st_[1][1] == 'closure:' + h.name and not st_[0][1]:
                        for c_ in A.calls(f):
                            if any(a_[0] in ('c', 'm') and not a_[1][1] and a_[1][0] == st_[0][0] for a_ in c_.args[1:]):
                                via_closure.append(c_)
        if not ws or not (pe or via_closure):
            continue
        defs = A.Defs(f)
        src = A.backward_slice(f, [ws[0][4][1]], defs)
        roots = (src.locals | {ws[0][4][1][1][0]})
        n += 1
        rep.analysed(f)
        bad = None
        for c in pe:
            a = c.args[1] if len(c.args) > 1 else None
            if a is None or a[0] == 'k':
                continue
            sl = A.backward_slice(f, [a], defs)
            nar = sorted(x for x in sl.calls if NARROW.search(x))
            if not (sl.locals & roots) and not (sl.params & src.params):
                bad = ('persisted-other', c.line, 'the entries handed to persist_log_entry are not the collection that is installed as the log')
            elif nar:
                bad = ('persisted-subset', c.line, 'the installed entries reach persist_log_entry through %s: entries that are filtered out are in '
                       'the in-memory log (and acknowledged to the leader) but not in the WAL' % ', '.join(lib.short(x) for x in nar))
        for c in via_closure:
            a = c.args[0]
            if a[0] == 'k':
                continue
            sl = A.backward_slice(f, [a], defs)
            nar = sorted(x for x in (sl.calls | {c.resolved, c.generic}) if NARROW.search(x))
            if not (sl.locals & roots) and not (sl.params & src.params):
                bad = ('persisted-other', c.line, 'the entries handed to persist_log_entry are not the collection that is installed as the log')
            elif nar:
                bad = ('persisted-subset', c.line, 'the installed entries reach persist_log_entry through %s: entries that are filtered out are in '
                       'the in-memory log (and acknowledged to the leader) but not in the WAL' % ', '.join(lib.short(x) for x in nar))
        for c in A.calls_to(f, ('re', r'RaftNode::persist_log_truncate$')):
            a = c.args[1] if len(c.args) > 1 else None
            if a is None or a[0] == 'k':
                continue
            sl = A.backward_slice(f, [a], defs)
            if not (sl.locals & roots) and not (sl.params & src.params) and (sl.fields or sl.params or sl.calls):
                bad = bad or ('truncate-index', c.line, 'the WAL is cut at an index taken from %s, not from the installed collection: records below it '
                              'stay in the WAL and are replayed into a log that no longer has them' %
                              (', '.join(sorted(x.split('::')[-1] for x in sl.fields)[:3]) or 'other state'))
        if bad:
            rep.violation('R10e', f, bad[0], f.loc(bad[1]), bad[2])
        else:
            rep.holds('R10e', f, 'log := collection', 'every element persisted, WAL cut at a constant / collection-derived index')
    rep.floor('R10e', 'wholesale log replacements that persist entries', n, 1)


def r10f(ctx, rep):
    rep.rule('R10f', 'a truncation is logged by log index: wherever RaftNode::append_leader_entries records that it cuts its log (the argument of '
                     'persist_log_truncate, or the from_index of an inline RaftWalEntry::LogTruncate), the value derives from LogEntry.index '
                     'of the conflicting entry and not from a position in the in-memory vector (the result of log_index_to_array_index). '
                     'The two differ by log_base_index once the follower has compacted its log; replay then cuts `base` acknowledged entries '
                     'too many')
    cr = ctx.crate('tensor_chain')
    f = rep.require_fn('R10f', cr, 'tensor_chain::raft::RaftNode::append_leader_entries')
    if f is None:
        return
    defs = A.Defs(f)
    vals = []
    for c in A.calls_to(f, ('re', r'RaftNode::persist_log_truncate$')):
        if len(c.args) > 1:
            vals.append((c.args[1], c.line))
    for i, b in enumerate(f.bbs):
        if b['cleanup']:
            continue
        for st in b['s']:
            rv = st[1]
            if rv[0] == 'agg' and rv[1].endswith('RaftWalEntry::LogTruncate') and rv[2]:
                vals.append((rv[2][0], st[2]))
    if not rep.floor('R10f', 'logged truncation points in append_leader_entries', len(vals), 1):
        return
    rep.analysed(f)
    for k, (op, line) in enumerate(vals):
        if op[0] == 'k':
            rep.violation('R10f', f, 'truncate-index-constant', f.loc(line), 'the logged truncation index is a constant')
            continue
        sl = A.backward_slice(f, [op], defs)
        from_index = any(x.endswith('LogEntry.index') for x in sl.fields)
        from_pos = sorted(lib.short(x) for x in sl.calls if re.search(r'log_index_to_array_index$|::len$|::position$', x))
        if from_index and not from_pos:
            rep.holds('R10f', f, 'truncate#%d' % k, 'LogEntry.index of the conflicting entry')
        else:
            rep.violation('R10f', f, 'truncate-by-array-position', f.loc(line),
                          'the truncation point written to the WAL is computed from %s, a position in the in-memory vector, not from the '
                          'entry\'s log index: after log compaction (log_base_index > 0) replay truncates earlier than memory did' %
                          (', '.join(from_pos) or 'something other than LogEntry.index'))


def r10g(ctx, rep):
    rep.rule('R10g', 'a vote logged after its term bump is recovered: handle_request_vote writes TermAndVote{T, None} when it adopts a higher '
                     'term and TermAndVote{T, Some(candidate)} when it grants the vote, so in RaftRecoveryState::from_entries a record whose '
                     'term is NOT greater than the recovered term can still set the recovered vote (the first vote of the term). With the '
                     'greater-term edge of the TermAndVote arm cut, a write to RaftRecoveryState.voted_for stays reachable. A replay that '
                     'treats the second record as a duplicate restarts the node in term T with no vote, and it votes again')
    cr = ctx.crate('tensor_chain')
    f = rep.require_fn('R10g', cr, 'tensor_chain::raft_wal::RaftRecoveryState::from_entries')
    if f is None:
        return
    RS = 'tensor_chain::raft_wal::RaftRecoveryState.'
    defs = A.Defs(f)
    ws = [w for w in A.field_writes(f) if w[2] == RS + 'voted_for']
    calls_w = [c for c in A.calls(f) if re.search(r'clone_from$|Option::<T>::(replace|insert)$', c.resolved) and c.args and c.args[0][0] != 'k' and
               any(x == RS + 'voted_for' for x in A.place_fields(c.args[0][1]) + A.origin_fields(f, c.args[0][1][0], defs)[0])]
    # only what the TermAndVote arm writes: the value comes out of the record's own voted_for field
    def from_record(op):
        return op is not None and op[0] != 'k' and any(x.endswith('RaftWalEntry.voted_for') for x in A.backward_slice(f, [op], defs).fields)
    ws = [w for w in ws if w[4] and any(from_record(o) for o in A.rvalue_operands(w[4]))]
    calls_w = [c for c in calls_w if len(c.args) > 1 and from_record(c.args[1])]
    wblocks = {w[0] for w in ws} | {c.bb for c in calls_w}
    if not rep.floor('R10g', 'writes of the recovered vote in from_entries', len(wblocks), 1):
        return
    rep.analysed(f)
    cut = set()
    for i, b in enumerate(f.bbs):
        if b['cleanup'] or b['t'][0] != 'sw':
            continue
        l = lib.switch_local(f, i)
        d = A.single_def(defs, l) if l is not None else None
        if not d or d[2] != 'st' or d[3][1][0] != 'bin' or d[3][1][1] not in ('Gt', 'Lt', 'Ge', 'Le'):
            continue
        rv = d[3][1]
        sides = [A.backward_slice(f, [rv[2]], defs), A.backward_slice(f, [rv[3]], defs)]
        rec = [any(x.endswith('RaftWalEntry.term') or x.endswith('TermAndVote.term') for x in sl.fields) for sl in sides]
        cur = [any(x == RS + 'current_term' for x in sl.fields) for sl in sides]
        if not ((rec[0] and cur[1]) or (rec[1] and cur[0])):
            continue
        t = b['t']
        # the edge on which record.term > current_term
        rec_left = rec[0] and cur[1]
        greater_true = (rv[1] == 'Gt' and rec_left) or (rv[1] == 'Lt' and not rec_left)
        if rv[1] in ('Gt', 'Lt'):
            zero = dict(t[2]).get('0')
            for s_ in set(A.succs(f, i)):
                is_true = (s_ != zero)
                if is_true == greater_true:
                    cut.add((i, s_))
    if not cut:
        rep.unresolved_instance('R10g', f, 'term test', 'comparison of the record term with the recovered term not recognised')
        return
    R = A.reachable(f, [0], cut_edges=cut)
    if wblocks & R:
        rep.holds('R10g', f, 'same-term vote', 'a record of the current term can still set the vote')
    else:
        rep.violation('R10g', f, 'same-term-vote-dropped', f.loc(),
                      'replay sets the recovered vote only from records of a greater term: the vote record that follows a term-bump record of '
                      'the same term is ignored, and the restarted node has forgotten the vote it granted')


def run(ctx, rep):
    raft_rules.r01a(ctx, rep)
    r10a(ctx, rep)
    r10c(ctx, rep)
    r10d(ctx, rep)
    r10e(ctx, rep)
    r10f(ctx, rep)
    r10g(ctx, rep)
    wal_rules.r02b(ctx, rep, ['RaftWal'])
    wal_rules.r02e(ctx, rep, ['RaftWal'])
    wal_rules.r02f(ctx, rep, ['RaftWal'])
    wal_rules.r02g(ctx, rep, ['RaftWal'])
    wal_rules.r02h(ctx, rep, ['RaftWal'])
    wal_rules.r02i(ctx, rep, ['RaftWal'])
    wal_rules.r02j(ctx, rep, ['RaftWal'])
    r10b_candidates(ctx, rep)
    if ctx.tier == 'thorough':
        witness.run(rep, 'R01a', ['RaftPersistentStateIsPrivate', 'RaftWalWriterIsPrivate'])



def r10b_candidates(ctx, rep):
    """listed, not armed: WAL append results that are discarded."""
    cr = ctx.crate('tensor_chain')
    for f in cr.fns.values():
        if not (f.file.endswith('raft.rs') or f.file.endswith('distributed_tx.rs')):
            continue
        uses = None
        for c in A.calls_to(f, ('re', r'(raft_wal::RaftWal|tx_wal::TxWal)::<.*>::append$')):
            uses = uses or A.Uses(f)
            o = A.call_outcome(f, c, uses)
            if not o.ok and not o.err and not o.returned and not o.unwrapped and not o.sinks:
                rep.candidate('R10b', f, f.loc(c.line), 'WAL append result discarded')
