"""Lock-acquisition order graph (A3 + A7): edge L1 -> L2 when some path acquires L2,
directly or through a callee, while a guard of L1 may be live."""
import collections
import analyses as A


FOREIGN = ('std::', 'core::', 'alloc::', 'parking_lot::', 'lock_api::', 'tokio::', 'dashmap::', 'arc_swap::', 'once_cell::')
WORKSPACE = ('tensor_', 'relational_engine', 'graph_engine', 'vector_engine', 'query_router', 'neumann_')


def lock_id(g):
    """The workspace struct field holding the lock (skipping Option.0, Arc, …)."""
    for x in reversed(g.lock_fields):
        if '.' in x and not x.startswith(FOREIGN):
            return x
    return None


class LockInfo:
    def __init__(self, fns):
        """fns: dict name -> Fn (one crate or several)."""
        self.fns = fns
        self.guards = {}      # fn name -> [(Guard, id)]
        self.direct = collections.defaultdict(set)   # fn -> lock ids acquired directly
        self.sites = collections.defaultdict(list)   # fn -> [(lock id, pos, line, kind)]
        for n, f in fns.items():
            if not any(A.is_guard_type(t) for t in f.locals):
                continue
            defs = A.Defs(f)
            gs = []
            for g in A.guards(f, defs):
                lid = lock_id(g)
                if lid is None:
                    continue
                gs.append((g, lid))
                self.direct[n].add(lid)
                for pos in g.acq_calls:
                    t = f.bbs[pos[0]]['t']
                    line = t[7] if t[0] == 'call' and pos[1] == len(f.bbs[pos[0]]['s']) else f.line
                    self.sites[n].append((lid, pos, line, A.guard_kind(g.ty)))
            self.guards[n] = gs

    def transitive(self, cg):
        """fn -> every lock id it or its callees may acquire."""
        acc = {n: set(s) for n, s in self.direct.items()}
        changed = True
        order = list(cg.fns.keys())
        while changed:
            changed = False
            for n in order:
                cur = acc.get(n, set())
                new = set(cur)
                for t in cg.edges.get(n, ()):
                    if t in acc:
                        new |= acc[t]
                if len(new) != len(cur):
                    acc[n] = new
                    changed = True
        return acc

    def edges(self, cg, restrict=None):
        """{(L1, L2): [(fn, line, via)]}"""
        trans = self.transitive(cg)
        out = collections.defaultdict(list)
        for n, gs in self.guards.items():
            f = self.fns[n]
            lives = [(g, lid, A.live_positions(f, g.acq, g.kills, must=False)) for g, lid in gs]
            # direct acquisitions while another guard is live
            for (g2, l2) in gs:
                for pos in g2.acq_calls:
                    for (g1, l1, lv) in lives:
                        if g1 is g2:
                            continue
                        if A.live_at(lv, pos):
                            out[(l1, l2)].append((n, _line(f, pos), 'direct'))
            # calls made while a guard is live
            for c in A.calls(f):
                pos = (c.bb, len(f.bbs[c.bb]['s']))
                tgts = [c.resolved]
                if c.resolved not in cg.fns and c.resolved in cg.trait_impls:
                    tgts = list(cg.trait_impls[c.resolved])
                inner = set()
                for t in tgts:
                    inner |= trans.get(t, set())
                if not inner:
                    continue
                for (g1, l1, lv) in lives:
                    if (c.bb, pos[1]) in g1.acq:
                        continue
                    if A.live_at(lv, pos):
                        for l2 in inner:
                            out[(l1, l2)].append((n, c.line, 'via ' + c.resolved))
        if restrict is not None:
            out = {k: v for k, v in out.items() if k[0] in restrict and k[1] in restrict}
        return out


def _line(f, pos):
    b = f.bbs[pos[0]]
    if pos[1] < len(b['s']):
        return b['s'][pos[1]][2]
    t = b['t']
    if t[0] == 'call':
        return t[7]
    return f.line


def cycles(edges):
    """SCCs (size >= 2) of the lock graph given as {(a, b): witnesses}."""
    adj = collections.defaultdict(set)
    nodes = set()
    for (a, b) in edges:
        if a == b:
            continue
        adj[a].add(b)
        nodes |= {a, b}
    index, low, st, on, out = {}, {}, [], set(), []
    ctr = [0]

    def strong(v):
        index[v] = low[v] = ctr[0]
        ctr[0] += 1
        st.append(v)
        on.add(v)
        for w in sorted(adj[v]):
            if w not in index:
                strong(w)
                low[v] = min(low[v], low[w])
            elif w in on:
                low[v] = min(low[v], index[w])
        if low[v] == index[v]:
            comp = []
            while True:
                w = st.pop()
                on.discard(w)
                comp.append(w)
                if w == v:
                    break
            if len(comp) > 1:
                out.append(sorted(comp))
    for v in sorted(nodes):
        if v not in index:
            strong(v)
    return out
