"""C15 Parser — precedence by table, depth-guarded recursion, dispatch coverage."""
import os, re
import analyses as A
import lib
import facts

NP = 'neumann_parser::'
BOP = NP + 'ast::BinaryOp'
ASSUMPTIONS = ['error positions and text/direct-call equivalence of effects are not decided here',
               'panic-freedom on arbitrary input needs value reasoning and is not armed (panic sites are listed in evidence)']
# documented operator symbols -> BinaryOp variant (the docs name operators by symbol / keyword)
SYMBOLS = {'OR': 'Or', 'AND': 'And', '=': 'Eq', '!=': 'Ne', '<': 'Lt', '<=': 'Le', '>': 'Gt', '>=': 'Ge', '|': 'BitOr', '^': 'BitXor',
           '&': 'BitAnd', '<<': 'Shl', '>>': 'Shr', '+': 'Add', '-': 'Sub', '||': 'Concat', '*': 'Mul', '/': 'Div', '%': 'Mod'}


def _bp_table(f, enum):
    """variant -> (l, r) from a `match op { V => (l, r), … }` function body."""
    ds = lib.enum_dispatches(f, BOP)
    out = {}
    if not ds:
        return out
    tg = lib.variant_targets(enum, ds[0][1])
    for v, tb in tg.items():
        stop = {b for vv, b in tg.items() if b != tb}
        R = A.reachable(f, [tb], cut_blocks=stop)
        for b in sorted(R):
            for st in f.bbs[b]['s']:
                if st[0][0] == 0 and st[1][0] == 'agg' and st[1][1] == 'tuple':
                    vals = [A._const_val(o[1]) if o[0] == 'k' else None for o in st[1][2]]
                    if len(vals) == 2 and None not in vals:
                        out[v] = tuple(vals)
    return out


def _doc_levels():
    """[(level number, [variants])] from the module doc comment of expr.rs and from the book chapter."""
    levels = {}
    src = os.path.join(facts.REPO, 'neumann_parser/src/expr.rs')
    doc = []
    try:
        for line in open(src):
            if line.startswith('//!'):
                doc.append(line[3:].strip())
            elif doc:
                break
    except OSError:
        return {}, {}
    dl = {}
    for line in doc:
        m = re.match(r'^(\d+)\.\s+(.*)$', line)
        if not m:
            continue
        n, text = int(m.group(1)), m.group(2)
        ops = []
        pm = re.search(r'\((.*)\)', text)
        if text.upper().startswith('OR'):
            ops = ['Or']
        elif text.upper().startswith('AND'):
            ops = ['And']
        elif pm:
            for sym in [x.strip() for x in pm.group(1).split(',')]:
                if sym in SYMBOLS:
                    ops.append(SYMBOLS[sym])
        if ops and not re.match(r'Unary|Postfix', text):
            dl[n] = ops
    bl = {}
    book = os.path.join(facts.REPO, 'docs/book/src/architecture/neumann-parser.md')
    try:
        for line in open(book):
            m = re.match(r'^\|\s*(\d+)[^|]*\|([^|]*(?:\\\|[^|]*)*)\|\s*\(', line)
            if m:
                n = int(m.group(1))
                cell = m.group(2).replace('\\|', '|').replace('`', '')
                cell = re.sub(r'\([^)]*\)', '', cell)
                ops = [SYMBOLS[x.strip()] for x in cell.split(',') if x.strip() in SYMBOLS]
                if ops:
                    bl[n] = ops
    except OSError:
        pass
    return dl, bl


def r15a(ctx, rep, cr):
    rep.rule('R15a', 'precedence and associativity by table: both infix_binding_power tables (expr.rs, parser.rs) are identical and total on '
                     'BinaryOp; l < r for every operator (left associative); operators of one documented level share (l, r); documented '
                     'levels are strictly ordered intervals; the prefix power exceeds every infix r; current_binary_op is injective and '
                     'total; both Pratt loops break on Lt(l_bp, min_bp) and recurse with r_bp — given that shape, grouping is a '
                     'function of the table alone')
    enum = cr.adts.get(BOP)
    if enum is None:
        rep.violation('R15a', 'anchor-missing', 'BinaryOp', '-', 'anchor-missing: enum BinaryOp not found')
        return
    variants = [v['n'] for v in enum['variants']]
    tabs = {}
    # the table functions, wherever they live: one per parser today, or one shared table in a module of its own
    tfs = {n: f for n, f in cr.fns.items() if re.search(r'::infix_binding_power$', n) and '{closure' not in n}
    for mod in ('expr', 'parser'):
        f = tfs.get(NP + mod + '::infix_binding_power')
        if f is not None:
            tabs[mod] = _bp_table(f, enum)
    # a parser without a table of its own must use some other module's (one shared table)
    for mod in ('expr', 'parser'):
        if mod in tabs:
            continue
        for tn, tf in sorted(tfs.items()):
            if any(n.startswith(NP + mod + '::') and A.calls_to(g, tn) for n, g in cr.fns.items()):
                tabs[mod] = _bp_table(tf, enum)
                break
    for mod in ('expr', 'parser'):
        if mod not in tabs:
            rep.violation('R15a', 'anchor-missing', NP + mod + '::infix_binding_power', '-', 'anchor-missing: no infix binding-power table is used by the %s parser' % mod)
    if len(tabs) == 2:
        if tabs['expr'] == tabs['parser'] and set(tabs['expr']) == set(variants):
            rep.holds('R15a', NP + 'expr::infix_binding_power', 'tables identical and total', '%d operators' % len(variants))
        else:
            diff = sorted(v for v in variants if tabs['expr'].get(v) != tabs['parser'].get(v))
            rep.violation('R15a', NP + 'parser::infix_binding_power', 'tables-differ', '-',
                          'the two binding-power tables disagree (or miss operators) on %s: the statement parser and the expression parser group the same text differently' % diff)
    for mod, t in tabs.items():
        fn = NP + mod + '::infix_binding_power'
        bad = sorted(v for v, (l, r) in t.items() if not l < r)
        if bad:
            rep.violation('R15a', fn, 'not-left-assoc', '-', 'operators %s have l_bp >= r_bp: they group to the right, the documentation says left' % bad)
        else:
            rep.holds('R15a', fn, 'l < r', 'all left associative')
        dl, bl = _doc_levels()
        for docname, levels in (('module doc', dl), ('book chapter', bl)):
            if not levels:
                rep.violation('R15a', fn, 'doc-table-' + docname.split()[0], '-', 'anchor-missing: the documented precedence table (%s) could not be read' % docname)
                continue
            covered = {o for ops in levels.values() for o in ops}
            if covered != set(variants):
                rep.violation('R15a', fn, 'doc-coverage-' + docname.split()[0], '-', 'the %s does not list exactly the BinaryOp operators (missing %s, extra %s)' % (
                    docname, sorted(set(variants) - covered), sorted(covered - set(variants))))
                continue
            ok = True
            prev_r = -1
            for n in sorted(levels):
                bps = {t.get(o) for o in levels[n]}
                if len(bps) != 1 or None in bps:
                    rep.violation('R15a', fn, 'level-%d-%s' % (n, docname.split()[0]), '-', 'operators of documented level %d (%s) do not share one binding power: %s' % (n, levels[n], sorted(map(str, bps))))
                    ok = False
                    continue
                l, r = next(iter(bps))
                if not l > prev_r:
                    rep.violation('R15a', fn, 'order-%d-%s' % (n, docname.split()[0]), '-', 'documented level %d does not bind tighter than level %d (l=%d, previous r=%d)' % (n, n - 1, l, prev_r))
                    ok = False
                prev_r = r
            if ok:
                rep.holds('R15a', fn, 'levels (%s)' % docname, '%d levels, strictly ordered' % len(levels))
    # prefix power
    maxr = max([r for t in tabs.values() for (_, r) in t.values()] or [0])
    pf = cr.fns.get(NP + 'expr::prefix_binding_power') or next((f for n, f in cr.fns.items() if n.endswith('::prefix_binding_power')), None)
    pvals = []
    if pf is not None:
        rep.analysed(pf)
    if pf is not None:
        for b in pf.bbs:
            for st in b['s']:
                if st[0][0] == 0 and st[1][0] == 'use' and st[1][1][0] == 'k':
                    v = A._const_val(st[1][1][1])
                    if v is not None:
                        pvals.append(('expr', v))
    # parser.rs uses a const PREFIX_BP passed to parse_expr_bp from parse_prefix_expr
    for where, pname, rec in (('parser', NP + 'parser::Parser::parse_prefix_expr', NP + 'parser::Parser::parse_expr_bp'),
                              ('expr', NP + 'expr::ExprParser::parse_prefix', ('re', r'ExprParser::parse_(expr_)?bp$'))):
        pp = cr.fns.get(pname)
        if pp is None or (where == 'expr' and any(w == 'expr' for w, _ in pvals)):
            continue
        for c in A.calls_to(pp, rec):
            a = c.args[1] if len(c.args) > 1 else None
            if a is not None and a[0] == 'k':
                v = A._const_val(a[1])
                if v is None and 'PREFIX_BP' in a[1]:
                    for fn_ in sorted(os.listdir(os.path.join(facts.REPO, 'neumann_parser/src'))):
                        if fn_.endswith('.rs') and v is None:
                            v = _const_item(os.path.join(facts.REPO, 'neumann_parser/src', fn_), 'PREFIX_BP')
                if v is not None and (where, v) not in pvals:
                    pvals.append((where, v))
    if not pvals:
        rep.violation('R15a', NP + 'expr::prefix_binding_power', 'prefix', '-', 'anchor-missing: prefix binding power not found')
    for where, v in pvals:
        if v > maxr:
            rep.holds('R15a', NP + where, 'prefix power', '%d > %d' % (v, maxr))
        else:
            rep.violation('R15a', NP + where, 'prefix-too-weak', '-', 'the prefix binding power %d does not exceed the strongest infix r_bp %d: `-a * b` groups as -(a*b)' % (v, maxr))
    # token -> op
    tk = cr.adts.get(NP + 'token::TokenKind')
    for owner in ('expr::ExprParser', 'parser::Parser'):
        f = rep.require_fn('R15a', cr, NP + owner + '::current_binary_op')
        if f is None or tk is None:
            continue
        ds = lib.enum_dispatches(f, NP + 'token::TokenKind')
        if not ds:
            rep.violation('R15a', f, 'dispatch', f.loc(), 'anchor-missing: no dispatch on TokenKind')
            continue
        tg = lib.variant_targets(tk, ds[0][1])
        m = {}
        for tv, tb in tg.items():
            if tb == ds[0][1][3]:
                continue
            stop = {b for vv, b in tg.items() if b != tb}
            R = A.reachable(f, [tb], cut_blocks=stop)
            for b in sorted(R):
                for st in f.bbs[b]['s']:
                    if st[1][0] == 'agg' and st[1][1].startswith(BOP + '::'):
                        m[tv] = st[1][1].split('::')[-1]
        ops = list(m.values())
        dup = sorted({o for o in ops if ops.count(o) > 1})
        miss = sorted(set(variants) - set(ops))
        if dup or miss:
            rep.violation('R15a', f, 'token-map', f.loc(), 'token→operator map is not a bijection onto BinaryOp (duplicates %s, unreachable operators %s)' % (dup, miss))
        else:
            rep.holds('R15a', f, 'token→op', 'injective, total on %d operators' % len(variants))
    # Pratt loop shape
    for owner in ('expr::ExprParser', 'parser::Parser'):
        f = rep.require_fn('R15a', cr, NP + owner + '::parse_expr_bp')
        if f is None:
            continue
        defs = A.Defs(f)
        ibp = A.calls_to(f, ('re', r'::infix_binding_power$'))
        rec = A.calls_to(f, f.name)
        if not ibp or not rec:
            rep.violation('R15a', f, 'pratt-shape', f.loc(), 'anchor-missing: infix_binding_power call (%d) / recursive call (%d)' % (len(ibp), len(rec)))
            continue
        tup = ibp[0].dest[0]
        ok_break = ok_rec = False
        for i, b in enumerate(f.bbs):
            if b['cleanup'] or b['t'][0] != 'sw':
                continue
            l = lib.switch_local(f, i)
            d = A.single_def(defs, l) if l is not None else None
            if d and d[2] == 'st' and d[3][1][0] == 'bin' and d[3][1][1] == 'Lt':
                lhs, rhs = d[3][1][2], d[3][1][3]
                if _is_tuple_field(f, defs, lhs, tup, 0) and _is_param(f, defs, rhs, 2):
                    # true edge must leave the loop: the recursive call unreachable from it without passing the loop again is hard;
                    # check instead that the true edge does not reach the recursive call before reaching infix_binding_power again
                    t = b['t']
                    true_t = t[3]
                    R = A.reachable(f, [true_t], cut_blocks={ibp[0].bb})
                    if not any(c.bb in R for c in rec):
                        ok_break = True
        for c in rec:
            if _is_tuple_field(f, defs, c.args[1], tup, 1):
                ok_rec = True
        if ok_break and ok_rec:
            rep.holds('R15a', f, 'Pratt loop', 'break on l_bp < min_bp, recurse with r_bp')
        else:
            rep.violation('R15a', f, 'pratt-loop', f.loc(), 'the Pratt loop does not break on Lt(l_bp, min_bp) (%s) / recurse with r_bp (%s): grouping no longer follows the table' % (ok_break, ok_rec))


def _const_item(path, name):
    try:
        m = re.search(r'const\s+%s\s*:\s*\w+\s*=\s*(\d+)\s*;' % name, open(path).read())
        return int(m.group(1)) if m else None
    except OSError:
        return None


def _is_tuple_field(f, defs, op, tup, idx, depth=6):
    for _ in range(depth):
        if op[0] == 'k':
            return False
        pl = op[1]
        if pl[0] == tup and pl[1] == ['#%d' % idx]:
            return True
        if pl[1]:
            return False
        d = A.single_def(defs, pl[0])
        if not d or d[2] != 'st' or d[3][1][0] != 'use':
            return False
        op = d[3][1][1]
    return False


def _is_param(f, defs, op, param, depth=6):
    for _ in range(depth):
        if op[0] == 'k':
            return False
        pl = op[1]
        if pl[0] == param and not pl[1]:
            return True
        if pl[1]:
            return False
        d = A.single_def(defs, pl[0])
        if not d or d[2] != 'st' or d[3][1][0] != 'use':
            return False
        op = d[3][1][1]
    return False


def _guard_fns(cr):
    """functions that increment a `depth` field, compare it with a limit and return Err on the exceeding edge"""
    out = set()
    for f in cr.fns.values():
        incs = [w for w in A.field_writes(f) if w[2].endswith('.depth')]
        if not incs:
            continue
        defs = A.Defs(f)
        fb = lib.failure_blocks(f)
        for i, b in enumerate(f.bbs):
            if b['cleanup'] or b['t'][0] != 'sw':
                continue
            l = lib.switch_local(f, i)
            d = A.single_def(defs, l) if l is not None else None
            if d and d[2] == 'st' and d[3][1][0] == 'bin' and d[3][1][1] in ('Gt', 'Ge'):
                sl = A.backward_slice(f, [d[3][1][2]], defs)
                if any(x.endswith('.depth') for x in sl.fields):
                    t = b['t']
                    R = A.reachable(f, [t[3]])
                    if fb & R:
                        out.add(f.name)
    return out


def r15b(ctx, rep, cr):
    rep.rule('R15b', 'recursion is depth-guarded: in the call graph reachable from the public parse entry points, deleting the guard '
                     'functions (those that increment a depth field, compare it with a limit and return Err on the exceeding edge) '
                     'leaves no cycle — otherwise nesting in the input is nesting on the stack')
    cg = ctx.callgraph(['neumann_parser'])
    entries = [n for n in cg.fns if re.match(r'^neumann_parser::(parse|parse_all|parse_expr|tokenize)$', n) or
               re.match(r'^neumann_parser::(parser::(parse|parse_all|parse_expr)|expr::parse_expr|parser::Parser::(parse_statement|parse_all|parse_expr))$', n)]
    if not rep.floor('R15b', 'parser entry points', len(entries), 3):
        return
    guards = _guard_fns(cr)
    rep.floor('R15b', 'depth-guard functions', len(guards), 1)
    reach = cg.reach(entries)
    rep.notes.append('R15b: %d functions reachable from %d entries, guards: %s' % (len(reach), len(entries), sorted(lib.short(g) for g in guards)))
    sccs_all = cg.sccs(reach)
    sccs = cg.sccs(reach - guards)
    rep.floor('R15b', 'recursive components before removing guards', len(sccs_all), 2)
    guarded = [c for c in sccs_all if set(c) & guards]
    for c in guarded:
        if not any(set(c) <= set(x) or set(x) <= set(c) for x in sccs):
            rep.holds('R15b', sorted(set(c) & guards)[0], 'guarded component', '%d functions, acyclic without the guard' % len(c))
    for c in sccs:
        fs = [x for x in c if '{closure' not in x]
        head = sorted(fs or c)[0]
        f = cg.fns.get(head)
        # a short witness cycle
        p = cg.path(head, lambda n: n in c and head in cg.edges.get(n, ()), cut=set(cg.fns) - set(c))
        rep.violation('R15b', head, 'unguarded-recursion', f.loc() if f else '-',
                      'recursion with no depth guard through %d functions (e.g. %s): a few kilobytes of nested input overflow the stack' % (
                          len(c), ' → '.join(lib.short(x).split('::')[-1] for x in (p or c[:4])[:6])))


NO_EFFECT_OK = {'Empty': 'the empty statement (only semicolons) has no effect by definition'}


def r15c(ctx, rep):
    rep.rule('R15c', 'dispatch coverage: every StatementKind variant has an explicit arm in QueryRouter::execute_statement (and the async '
                     'twin) whose blocks reach a call; variants that fall into the wildcard arm are listed')
    pr = ctx.crate('neumann_parser')
    qr = ctx.crate('query_router')
    enum = pr.adts.get(NP + 'ast::StatementKind')
    if enum is None:
        rep.violation('R15c', 'anchor-missing', 'StatementKind', '-', 'anchor-missing: enum StatementKind not found')
        return
    found = 0
    for name, f in qr.fns.items():
        if not re.search(r'QueryRouter::execute_statement(_async)?(::\{closure#0\})?$', name):
            continue
        ds = lib.enum_dispatches(f, NP + 'ast::StatementKind')
        if not ds:
            continue
        found += 1
        rep.analysed(f)
        tg = lib.variant_targets(enum, ds[0][1])
        other = ds[0][1][3]
        wild = sorted(v for v, tb in tg.items() if tb == other and list(tg.values()).count(tb) > 1)
        empty = []
        for v, tb in tg.items():
            stop = {b for vv, b in tg.items() if b != tb}
            R = A.reachable(f, [tb], cut_blocks=stop)
            if not any(f.bbs[b]['t'][0] == 'call' and not f.bbs[b]['t'][8] for b in R) and v not in NO_EFFECT_OK:
                empty.append(v)
        if empty:
            rep.violation('R15c', f, 'empty-arms', f.loc(), 'statement kinds %s are dispatched to an arm that calls nothing: the statement parses and silently does nothing' % sorted(empty))
        else:
            rep.holds('R15c', f, 'arms', '%d variants, each arm reaches a call%s' % (len(tg), ('; wildcard: %s' % wild) if wild else ''))
        if wild:
            rep.notes.append('R15c: %s handles %d variants through a shared / wildcard arm: %s' % (lib.short(f.name), len(wild), wild))
    rep.floor('R15c', 'execute_statement dispatchers', found, 1)


def r15d(ctx, rep, cr):
    rep.rule('R15d', 'no unchecked indexing on the way from text to tree: every slice/array index in neumann_parser that compiles to a bounds '
                     'check (index out of range = panic) is reachable only through a test index < len on the same index value and the same '
                     'buffer, with no reassignment of the index in between; range-indexing of the source string is listed as a candidate. '
                     'Today the lexer and both parsers contain no such index at all (they walk Chars / token vectors through get/peek)')
    n = 0
    nf = 0
    for name, f in sorted(cr.fns.items()):
        nf += 1
        bad, k = lib.undischarged_bounds(f)
        n += k
        for j, (bb, line, why) in enumerate(bad):
            rep.analysed(f)
            rep.violation('R15d', f, 'unchecked-index', f.loc(line),
                          'this index can be out of range (%s) with no dominating `index < len` test on that value: an input that ends at the '
                          'wrong byte makes tokenize()/parse() panic instead of returning an error' % why)
        for c in A.calls(f):
            if not c.exp and re.search(r'ops::Index(Mut)?<.*Range.*>>::index(_mut)?$', c.resolved) and re.search(r'for str|<str as|\[T\]|\[u8\]', c.resolved):
                rep.candidate('R15d', f, f.loc(c.line), 'range index into a string/slice (panics when out of range or off a char boundary) — listed, not armed')
    rep.notes.append('R15d: %d functions scanned, %d bounds-checked index sites' % (nf, n))
    if not rep.floor('R15d', 'neumann_parser functions scanned for bounds checks', nf, 200):
        return
    rep.holds('R15d', 'neumann_parser', 'bounds-checked index sites', '%d sites examined' % n)


def r15e(ctx, rep, cr):
    rep.rule('R15e', 'a prefix operator takes its operand at prefix power, always: in Parser::parse_prefix_expr and ExprParser::parse_prefix, '
                     'every arm of the token dispatch that builds ExprKind::Unary reaches a success return only through the recursive '
                     'operand parse (parse_expr_bp / parse_bp). An arm that also returns something else early (a folded literal, a '
                     'shortcut) makes the operator bind differently for that operand — `-5 IS NULL` groups as (-5) IS NULL while '
                     '`-x IS NULL` stays -(x IS NULL) — and the two parsers disagree')
    TK = NP + 'token::TokenKind'
    adt = cr.adts.get(TK)
    n = 0
    for fname, rec in ((NP + 'parser::Parser::parse_prefix_expr', r'Parser::parse_expr_bp$'), (NP + 'expr::ExprParser::parse_prefix', r'ExprParser::parse_(expr_)?bp$')):
        f = rep.require_fn('R15e', cr, fname)
        if f is None or adt is None:
            continue
        ds = lib.enum_dispatches(f, TK)
        if not ds:
            rep.violation('R15e', f, 'dispatch', f.loc(), 'anchor-missing: no dispatch on TokenKind')
            continue
        tg = lib.variant_targets(adt, ds[0][1])
        recs = A.calls_to(f, ('re', rec))
        if not recs:
            rep.violation('R15e', f, 'operand-parse', f.loc(), 'anchor-missing: no recursive operand parse (%s) in the prefix parser' % rec)
            continue
        rblocks = {c.bb for c in recs}
        for v, tb in sorted(tg.items()):
            if tb == ds[0][1][3] and v not in ('Minus', 'Bang', 'Not', 'Tilde'):
                continue
            stop = {b for vv, b in tg.items() if b != tb}
            R = A.reachable(f, [tb], cut_blocks=stop)
            if not any(st[1][0] == 'agg' and st[1][1].endswith('ExprKind::Unary') for b in R for st in f.bbs[b]['s']):
                continue
            n += 1
            rep.analysed(f)
            rets = lib.success_return_reachable(f, [tb], cut_blocks=stop | rblocks)
            if rets:
                rep.violation('R15e', f, 'prefix-arm-shortcut-' + v, f.loc(lib.first_line(f, rets[0])),
                              'the %s arm can return an expression without parsing its operand at prefix power: for that operand shape the '
                              'prefix operator binds tighter than the postfix operators (IS NULL, IN, BETWEEN, LIKE), against the documented '
                              'table and against the other parser' % v)
            else:
                rep.holds('R15e', f, 'arm ' + v, 'operand parsed at prefix power on every success path')
    rep.floor('R15e', 'prefix-operator arms', n, 4)


def _sticky_flags(f):
    """bool locals that are set to true inside a loop and can reach, un-reassigned and across a back edge of that loop, a call that
    takes them as an argument: [(local, line of the assignment, Call)]"""
    out = []
    dom = A.dominators(f)
    back = {(u, h) for u in range(len(f.bbs)) if not f.bbs[u]['cleanup'] for h in A.succs(f, u) if h in dom[u]}
    if not back:
        return out
    assigns = {}
    for i, b in enumerate(f.bbs):
        if b['cleanup']:
            continue
        for st in b['s']:
            if not st[0][1] and f.locals[st[0][0]] == 'bool':
                assigns.setdefault(st[0][0], []).append((i, st))
        t = b['t']
        if t[0] == 'call' and not t[4][1] and f.locals[t[4][0]] == 'bool':
            assigns.setdefault(t[4][0], []).append((i, None))
    # copies: `_9 = copy _5` just before the call
    for l, defs_ in assigns.items():
        trues = [(i, st) for (i, st) in defs_ if st is not None and st[1][0] == 'use' and st[1][1][0] == 'k' and A._const_val(st[1][1][1]) == 1]
        if not trues:
            continue
        ablocks = {i for (i, _) in defs_}
        users = []
        for c in A.calls(f):
            for a in c.args[1:] if c.args else []:
                if a[0] in ('c', 'm') and not a[1][1]:
                    src = a[1][0]
                    if src == l:
                        users.append(c)
                    else:
                        for b_ in f.bbs:
                            for st in b_['s']:
                                if st[0] == [src, []] and st[1][0] == 'use' and st[1][1][0] in ('c', 'm') and st[1][1][1] == [l, []]:
                                    users.append(c)
        if not users:
            continue
        for (bt, st) in trues:
            # BFS over (block, crossed a back edge) without passing another assignment of l
            seen, work = set(), [(x, (bt, x) in back) for x in A.succs(f, bt)]
            hit = None
            while work and hit is None:
                b_, crossed = work.pop()
                if (b_, crossed) in seen or f.bbs[b_]['cleanup']:
                    continue
                seen.add((b_, crossed))
                if crossed:
                    for c in users:
                        if c.bb == b_:
                            hit = c
                if b_ in ablocks:
                    continue   # reassigned here (conservatively: anywhere in the block)
                for x in A.succs(f, b_):
                    work.append((x, crossed or (b_, x) in back))
            if hit is not None:
                out.append((l, st[2], hit))
    return out


def r15f(ctx, rep, cr):
    rep.rule('R15f', 'one operator, one flag: in the parsers (neumann_parser::parser, ::expr) a bool that a loop sets to true and hands to a '
                     'parse_* call — `negated` for NOT IN / NOT BETWEEN / NOT LIKE — cannot reach such a call in a LATER iteration of the '
                     'loop without being assigned again. A flag that is declared outside the postfix loop and never reset makes '
                     '`a NOT IN (..) IN (..)` parse as two negated operators, while `(a NOT IN (..)) IN (..)` negates one: parenthesising '
                     'by the precedence rules changes the tree')
    n = 0
    for name, f in sorted(cr.fns.items()):
        if not (name.startswith('neumann_parser::parser::') or name.startswith('neumann_parser::expr::')) or '{closure' in name:
            continue
        if not any(re.search(r'::parse_\w+$', c.resolved) for c in A.calls(f)):
            continue
        n += 1
        for (l, line, c) in _sticky_flags(f):
            if not re.search(r'::parse_\w+$', c.resolved):
                continue
            rep.analysed(f)
            rep.violation('R15f', f, 'sticky-flag-into-%s' % c.resolved.split('::')[-1], f.loc(line),
                          'a flag set to true in one iteration of the loop is still true when %s is called in a later iteration: the '
                          'second operator of a chain inherits the first one\'s NOT' % lib.short(c.resolved))
    rep.holds('R15f', 'neumann_parser', 'loop flags', '%d parser functions with parse_* calls checked' % n)
    rep.floor('R15f', 'parser functions checked', n, 5)


def r15g(ctx, rep):
    rep.rule('R15g', 'an explicit INSERT column list is used as written: in QueryRouter::exec_insert (and its async twin) the columns that are '
                     'paired by position with the VALUES tuple (Iterator::zip) come straight from InsertStmt.columns — no detour through the '
                     'table schema and no filtering, sorting or searching on the way — or, when the statement names no columns, straight '
                     'from the schema. A column list re-ordered into schema order while the values stay in statement order stores '
                     '`INSERT INTO t (b, a) VALUES (1, 2)` as a=1, b=2: the text no longer means what the direct engine call means')
    cr = ctx.crate('query_router')
    REORDER = re.compile(r'::(filter|filter_map|sort\w*|retain|position|find|contains|dedup\w*|rev|skip|take|binary_search\w*)$')
    n = 0
    for name, f in sorted(cr.fns.items()):
        if not re.match(r'query_router::QueryRouter::exec_insert\w*(::\{closure#\d+\})*$', name):
            continue
        defs = A.Defs(f)
        for c in A.calls(f):
            if not (re.search(r'Iterator>?::zip$', c.generic) or re.search(r'Iterator>?::zip$', c.resolved)) or len(c.args) < 2:
                continue
            sides = [A.backward_slice(f, [a], defs) if a[0] != 'k' else None for a in c.args[:2]]
            if any(x is None for x in sides):
                continue

            def deep(sl):
                flds, calls = set(sl.fields), set(sl.calls)
                for cn in sl.closures:
                    h = cr.fns.get(cn[8:] if cn.startswith('closure:') else cn)
                    if h is not None:
                        flds |= set(A.field_reads(h))
                        calls |= {x.resolved for x in A.calls(h)} | {x.generic for x in A.calls(h)}
                return flds, calls
            info = [deep(sl) for sl in sides]
            is_values = [any(re.search(r'InsertSource|InsertStmt\.source', x) for x in fl) for (fl, _) in info]
            for k_, (fl, cl) in enumerate(info):
                if is_values[k_] or not is_values[1 - k_]:
                    continue   # k_ is the column side of a pairing with the VALUES tuple
                n += 1
                rep.analysed(f)
                has_stmt = any(x.endswith('InsertStmt.columns') for x in fl)
                schema = sorted(lib.short(x) for x in cl if re.search(r'::get_schema$', x)) + \
                    sorted(x.split('::')[-1] for x in fl if re.search(r'(Schema|TableSchema)\.columns$', x))
                reorder = sorted({lib.short(x) for x in cl if REORDER.search(x)})
                if has_stmt and (schema or reorder):
                    rep.violation('R15g', f, 'explicit-columns-reordered', f.loc(c.line),
                                  'the column side of the positional pairing with VALUES derives from the statement\'s column list *and* %s: '
                                  'the columns no longer line up with the values as written' % ', '.join(schema + reorder))
                else:
                    rep.holds('R15g', f, 'zip@%d' % c.line, 'InsertStmt.columns in statement order' if has_stmt else 'schema order (no column list)')
    rep.floor('R15g', 'positional pairings of an explicit column list with VALUES', n, 1)


def run(ctx, rep):
    cr = ctx.crate('neumann_parser')
    r15a(ctx, rep, cr)
    r15b(ctx, rep, cr)
    r15c(ctx, rep)
    r15d(ctx, rep, cr)
    r15e(ctx, rep, cr)
    r15f(ctx, rep, cr)
    r15g(ctx, rep)
