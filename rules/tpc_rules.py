"""Rules over the 2PC coordinator / participant (shared by C03, C12, C13)."""
import re
import analyses as A
import lib

DT = 'tensor_chain::distributed_tx::'
COORD = DT + 'DistributedTxCoordinator::'
PART = DT + 'TxParticipant::'
PHASE_FIELD = DT + 'DistributedTransaction.phase'
PHASE_ENUM = DT + 'TxPhase'
LOG = COORD + 'log_wal_entry'
PHASES = ['Preparing', 'Prepared', 'Committing', 'Committed', 'Aborting', 'Aborted']


def _promoted_variant(f, const_text):
    m = re.search(r'promoted\[(\d+)\]', const_text)
    if not m:
        return None
    i = int(m.group(1))
    pr = f.d.get('promoted', [])
    if i >= len(pr):
        return None
    for rv in pr[i]:
        if rv[0] == 'agg' and rv[1].startswith(PHASE_ENUM + '::'):
            return rv[1].split('::')[-1]
    return None


def _local_variant(f, defs, l, depth=0):
    """If local l (or what it references) is a TxPhase constant, return the variant."""
    if depth > 6:
        return None
    d = A.single_def(defs, l)
    if not d or d[2] != 'st':
        return None
    rv = d[3][1]
    if rv[0] == 'agg' and rv[1].startswith(PHASE_ENUM + '::'):
        return rv[1].split('::')[-1]
    if rv[0] == 'ref' and not A.place_fields(rv[1]):
        return _local_variant(f, defs, rv[1][0], depth + 1)
    if rv[0] == 'use':
        op = rv[1]
        if op[0] == 'k':
            return _promoted_variant(f, op[1])
        if not A.place_fields(op[1]):
            return _local_variant(f, defs, op[1][0], depth + 1)
    return None


def _is_phase_place(f, defs, place):
    fs = A.place_fields(place)
    if fs:
        return fs[-1] == PHASE_FIELD
    ofs, _ = A.origin_fields(f, place[0], defs)
    return bool(ofs) and ofs[-1] == PHASE_FIELD


class PhaseAssumption:
    """Decides phase tests of a function body under `tx.phase == variant`:
    discriminant switches on the phase field and ==/!= comparisons with a constant.
    A local copy `let p = tx.phase` is followed."""

    def __init__(self, f, adt):
        self.f = f
        self.defs = A.Defs(f)
        self.discr = {v['n']: v['d'] for v in adt['variants']}
        self.tests = {}   # switch bb -> ('disc',) | ('cmp', op, variant)
        for i, b in enumerate(f.bbs):
            if b['cleanup'] or b['t'][0] != 'sw':
                continue
            l = lib.switch_local(f, i)
            if l is None:
                continue
            d = A.single_def(self.defs, l)
            if not d:
                continue
            if d[2] == 'st' and d[3][1][0] == 'disc' and self._phase_value(d[3][1][1]):
                self.tests[i] = ('disc',)
            elif d[2] == 'call' and re.search(r'PartialEq(<.*>)?>?::(eq|ne)$', d[3].generic) and len(d[3].args) == 2:
                c = d[3]
                op = 'ne' if c.generic.endswith('ne') else 'eq'
                a0, a1 = c.args
                if a0[0] in ('c', 'm') and a1[0] in ('c', 'm'):
                    for x, y in ((a0, a1), (a1, a0)):
                        if self._phase_value(x[1]):
                            v = _local_variant(f, self.defs, y[1][0])
                            if v:
                                self.tests[i] = ('cmp', op, v)

    def _phase_value(self, place):
        if _is_phase_place(self.f, self.defs, place):
            return True
        # a local copy of the phase:  p = tx.phase
        if not A.place_fields(place):
            d = A.single_def(self.defs, place[0])
            if d and d[2] == 'st' and d[3][1][0] in ('use', 'ref'):
                src = d[3][1][1]
                if d[3][1][0] == 'use' and src[0] in ('c', 'm'):
                    return self._phase_value(src[1])
                if d[3][1][0] == 'ref':
                    return self._phase_value(src)
        return False

    def cut_edges(self, variant):
        """edges that are NOT taken when tx.phase == variant."""
        cut = set()
        for bb, test in self.tests.items():
            t = self.f.bbs[bb]['t']
            listed = dict(t[2])
            if test[0] == 'disc':
                take = listed.get(self.discr[variant], t[3])
            else:
                val = (variant == test[2]) if test[1] == 'eq' else (variant != test[2])
                if val:
                    take = listed['1'] if '1' in listed else t[3]
                else:
                    take = listed['0'] if '0' in listed else t[3]
            for s in set(A.succs(self.f, bb)):
                if s != take:
                    cut.add((bb, s))
        return cut


def _fresh_tx(f, defs, base):
    seen, work = set(), [base]
    while work:
        l = work.pop()
        if l in seen:
            continue
        seen.add(l)
        for d in defs.defs.get(l, []):
            if d[2] == 'call' and d[3].resolved.endswith('DistributedTransaction::new'):
                return True
            if d[2] == 'st' and d[3][1][0] in ('ref', 'use'):
                pl = d[3][1][1] if d[3][1][0] == 'ref' else (d[3][1][1][1] if d[3][1][1][0] != 'k' else None)
                if pl is not None and not [x for x in pl[1] if x != '*']:
                    work.append(pl[0])
    return False


def phase_writes(f):
    """(bb, line, variant|None) for every write to DistributedTransaction.phase."""
    out = []
    defs = None
    for w in A.field_writes(f):
        if w[2] != PHASE_FIELD or w[3][1][-1] != PHASE_FIELD:
            continue
        # initialising a transaction object that this function has just built (recovery rebuilding it from the log) is not a
        # phase transition of a live transaction
        defs = defs or A.Defs(f)
        if _fresh_tx(f, defs, w[3][0]):
            continue
        v = None
        rv = w[4]
        if rv and rv[0] == 'agg' and rv[1].startswith(PHASE_ENUM + '::'):
            v = rv[1].split('::')[-1]
        elif rv and rv[0] == 'use':
            defs = defs or A.Defs(f)
            if rv[1][0] == 'k':
                v = _promoted_variant(f, rv[1][1])
            elif not rv[1][1][1]:
                v = _local_variant(f, defs, rv[1][1][0])
        out.append((w[0], w[5], v))
    return out


def log_calls(f, defs, variant, **fields):
    """log_wal_entry calls whose entry is TxWalEntry::<variant> (and, for PhaseChange,
    whose `to` field is the given phase)."""
    out = []
    for c in A.calls_to(f, LOG):
        if len(c.args) < 2 or c.args[1][0] == 'k':
            continue
        # find the aggregate the argument refers to
        agg = _find_agg(f, defs, c.args[1][1][0], 'tensor_chain::tx_wal::TxWalEntry::' + variant)
        if agg is None:
            continue
        ok = True
        for k, want in fields.items():
            names = agg[3]
            if k not in names:
                ok = False
                break
            op = agg[2][names.index(k)]
            got = None
            if op[0] == 'k':
                got = _promoted_variant(f, op[1])
            elif not op[1][1]:
                got = _local_variant(f, defs, op[1][0])
            if got != want:
                ok = False
        if ok:
            out.append(c)
    return out


def _find_agg(f, defs, l, kind, depth=0):
    if depth > 6:
        return None
    for d in defs.defs.get(l, []):
        if d[2] != 'st':
            continue
        rv = d[3][1]
        if rv[0] == 'agg' and rv[1] == kind:
            return rv
        if rv[0] == 'ref' and not A.place_fields(rv[1]):
            r = _find_agg(f, defs, rv[1][0], kind, depth + 1)
            if r:
                return r
        if rv[0] == 'use' and rv[1][0] in ('c', 'm') and not rv[1][1][1]:
            r = _find_agg(f, defs, rv[1][1][0], kind, depth + 1)
            if r:
                return r
    return None


def pending_removes(f, defs):
    """HashMap::remove calls on the coordinator's `pending` map."""
    out = []
    for c in A.calls_to(f, ('re', r'HashMap::<K, V, S, A>::remove$')):
        a = c.arg_local(0)
        if a is None:
            continue
        fs, root = A.origin_fields(f, a, defs)
        fs = A.place_fields(c.args[0][1]) + fs
        if any(x.endswith('DistributedTxCoordinator.pending') for x in fs):
            out.append(c)
        else:
            # through the guard local: guard acquired from self.pending
            for g in A.guards(f, defs):
                if g.local == root and any(x.endswith('DistributedTxCoordinator.pending') for x in g.lock_fields):
                    out.append(c)
    return out


def coordinator_fns(cr):
    return [f for n, f in cr.fns.items() if n.startswith(COORD) and f.file.endswith('distributed_tx.rs')]
