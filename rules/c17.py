"""C17 Membership convergence — structural part."""
import re
import analyses as A
import lib

G = 'tensor_chain::gossip::'
GS = G + 'GossipNodeState'
LW = G + 'LWWMembershipState'
ASSUMPTIONS = ['convergence over arbitrary delivery orders beyond these necessary conditions is not decided here']
# fields of the replicated state that are part of the observable view
VIEW_FIELDS = ('health', 'incarnation', 'timestamp')
NOT_VIEW = {'node_id': 'the key', 'updated_at': 'receiver-local wall clock, not part of the membership view'}


def r17a(ctx, rep, cr):
    rep.rule('R17a', 'the newer-wins decision of merge (GossipNodeState::supersedes, plus any tie-break in merge\'s decision closure) reads, on both operands, every replicated observable field of the state '
                     '(health, incarnation, timestamp): if a field is not consulted, two states equal on the consulted fields and '
                     'different in it are mutually non-superseding and merge keeps whichever arrived first (not commutative)')
    adt = cr.adts.get(GS)
    f = rep.require_fn('R17a', cr, GS + '::supersedes')
    if adt is None or f is None:
        return
    fields = [x[0] for x in adt['variants'][0]['fields']]
    unknown = [x for x in fields if x not in VIEW_FIELDS and x not in NOT_VIEW]
    for x in unknown:
        rep.violation('R17a', f, 'unclassified-field-' + x, f.loc(), 'GossipNodeState has a new field `%s` that the rule\'s table does not classify as view / not view' % x)
    reads = {1: set(), 2: set()}
    for b in f.bbs:
        if b['cleanup']:
            continue
        places = []
        for st in b['s']:
            places += A.rvalue_places(st[1])
        t = b['t']
        if t[0] == 'call':
            places += [a[1] for a in t[3] if a[0] != 'k']
        for pl in places:
            if pl[0] in (1, 2):
                for x in A.place_fields(pl):
                    if x.startswith(GS + '.'):
                        reads[pl[0]].add(x.split('.')[-1])
    # the tie-break may live in merge's decision closure instead of supersedes itself
    merge_reads = {}
    for h in A.with_closures(cr.fns, LW + '::merge'):
        if not A.calls_to(h, GS + '::supersedes'):
            continue
        for b in h.bbs:
            if b['cleanup']:
                continue
            for st in b['s']:
                for pl in A.rvalue_places(st[1]):
                    for x in A.place_fields(pl):
                        if x.startswith(GS + '.'):
                            merge_reads.setdefault(x.split('.')[-1], set()).add(pl[0])
        # … or in a helper that is handed each state (`rank(existing) > rank(incoming)`): what the helper reads of its parameter
        # counts for the operand it is called with
        for c in A.calls(h):
            g = cr.fns.get(c.resolved)
            if g is None or not c.resolved.startswith(G) or c.resolved == GS + '::supersedes' or not c.args:
                continue
            for k_, a in enumerate(c.args):
                if a[0] == 'k' or not re.search(r'GossipNodeState$', h.locals[a[1][0]].replace('&', '').strip()):
                    continue
                for b in g.bbs:
                    if b['cleanup']:
                        continue
                    pls = []
                    for st in b['s']:
                        pls += A.rvalue_places(st[1])
                    for pl in pls:
                        if pl[0] == k_ + 1:
                            for x in A.place_fields(pl):
                                if x.startswith(GS + '.'):
                                    merge_reads.setdefault(x.split('.')[-1], set()).add(('arg', a[1][0]))
    for fld in VIEW_FIELDS:
        if fld in reads[1] and fld in reads[2]:
            rep.holds('R17a', f, fld, 'read on both operands')
        elif len(merge_reads.get(fld, ())) >= 2:
            rep.holds('R17a', f, fld, 'compared on both operands by the tie-break in merge\'s decision closure')
        else:
            rep.violation('R17a', f, 'ignores-' + fld, f.loc(),
                          'supersedes never compares `%s` (reads self:%s other:%s): two updates that tie on the compared fields but differ '
                          'in `%s` leave two nodes with different views depending on arrival order' % (fld, sorted(reads[1]), sorted(reads[2]), fld))


def r17b(ctx, rep, cr):
    rep.rule('R17b', 'every write to LWWMembershipState.lamport_time is old + 1 or max(old, x) + 1: the written value is the sum of a '
                     'value sliced from the old clock (optionally through Ord::max) and a positive constant; no subtraction on the slice')
    FIELD = LW + '.lamport_time'
    n = 0
    for f in cr.fns.values():
        if not f.file.endswith('gossip.rs'):
            continue
        ws = [w for w in A.field_writes(f) if w[2] == FIELD]
        if not ws:
            continue
        rep.analysed(f)
        defs = A.Defs(f)
        for w in ws:
            n += 1
            rv = w[4]
            ok = False
            why = 'unrecognised shape'
            if rv and rv[0] == 'use' and rv[1][0] in ('c', 'm'):
                pl = rv[1][1]
                d = A.single_def(defs, pl[0])
                # value = (AddWithOverflow(a, k)).0  or Add(a, k)
                add = None
                if d and d[2] == 'st' and d[3][1][0] == 'bin' and d[3][1][1] in ('Add', 'AddWithOverflow', 'AddUnchecked'):
                    add = d[3][1]
                if add:
                    ops = [add[2], add[3]]
                    ks = [o for o in ops if o[0] == 'k']
                    vs = [o for o in ops if o[0] != 'k']
                    if len(ks) == 1 and len(vs) == 1 and (A._const_val(ks[0][1]) or 0) > 0:
                        sl = A.backward_slice(f, vs, defs)
                        bad_ops = sl.binops & {'Sub', 'SubWithOverflow', 'SubUnchecked', 'Div', 'Rem', 'Shr'}
                        extra_calls = {c for c in sl.calls if not re.search(r'Ord>::max$|Ord::max$|cmp::max$|Deref', c)}
                        if FIELD in sl.fields and not bad_ops and not extra_calls:
                            ok = True
                            why = 'old%s + %s' % (' max x' if any('max' in c for c in sl.calls) else '', ks[0][1])
                        else:
                            why = 'reads old clock: %s, ops %s, calls %s' % (FIELD in sl.fields, sorted(bad_ops), sorted(extra_calls))
            elif rv and rv[0] == 'use' and rv[1][0] == 'k':
                why = 'constant'
            if f.name.endswith('::new') or '::default' in f.name:
                ok = True
                why = 'constructor'
            if ok:
                rep.holds('R17b', f, 'lamport_time write', why)
            else:
                rep.violation('R17b', f, 'clock-write', f.loc(w[5]), 'the logical clock is written with a value that is not old(+max)+positive constant (%s): it can move backwards' % why)
    rep.floor('R17b', 'lamport_time writes', n, 2)


def r17c(ctx, rep, cr):
    rep.rule('R17c', 'GossipNodeState.incarnation is written (outside struct literals) only in refute, under a must-pass test built from '
                     'new_incarnation > old; whole-state inserts into the view in merge are reachable only through the true edge of the '
                     'test computed from supersedes (or absence of an entry)')
    FIELD = GS + '.incarnation'
    writers = []
    for f in cr.fns.values():
        for w in A.field_writes(f):
            if w[2] == FIELD:
                writers.append((f, w))
    allowed = {LW + '::refute'}
    rep.floor('R17c', 'incarnation field writes', len(writers), 1)
    for f, w in writers:
        if A.parent_fn(f.name) not in allowed:
            rep.violation('R17c', f, 'incarnation-write', f.loc(w[5]), 'incarnation is overwritten outside refute: a recorded incarnation can go down or a failure can be recorded at an incarnation the member never announced')
            continue
        defs = A.Defs(f)
        cd = A.control_deps(f)
        nc = A.necessary_condition_sources(f, w[0], defs, cd)
        ok = False
        # new_incarnation > old, however it is spelled (inline, a named bool, a match on the looked-up value, a closure predicate)
        for at in lib.must_pass_atoms(cr.fns, f, defs, w[0]):
            if at.kind == 'cmp' and at.op in ('Gt', 'Lt'):
                deep = set()
                for sl_ in at.side_slices():
                    deep |= lib.slice_fields_deep(cr.fns, sl_, 'tensor_chain::', depth=1)
                if FIELD in deep:
                    ok = True
        for (a, s, sl) in nc:
            if any(c.endswith('is_some_and') or c.endswith('map_or') for c in sl.calls):
                # the closure compares new > old
                for h in A.with_closures(cr.fns, f.name):
                    if h.name != f.name and any(st[1][0] == 'bin' and st[1][1] == 'Gt' for b in h.bbs for st in b['s']):
                        ok = True
            if 'Gt' in sl.binops and FIELD in sl.fields:
                ok = True
        if ok:
            rep.holds('R17c', f, 'refute guard', 'new_incarnation > old is a necessary condition of the write')
        else:
            rep.violation('R17c', f, 'refute-unguarded', f.loc(w[5]), 'refute overwrites the incarnation without a must-pass new > old test')
    m = rep.require_fn('R17c', cr, LW + '::merge')
    if m is not None:
        defs = A.Defs(m)
        cd = A.control_deps(m)
        ins = [c for c in A.calls_to(m, ('re', r'HashMap::<K, V, S, A>::insert$'))]
        if not ins:
            rep.violation('R17c', m, 'insert', m.loc(), 'anchor-missing: merge no longer inserts states')
        sup_closure = any(A.calls_to(h, GS + '::supersedes') for h in A.with_closures(cr.fns, m.name))   # merge itself included
        for k, c in enumerate(ins):
            nc = A.necessary_condition_sources(m, c.bb, defs, cd)
            ok = any(any(x.endswith('map_or') or x.endswith('supersedes') or x.endswith('is_none_or') for x in sl.calls) for (_, _, sl) in nc) and sup_closure
            if ok:
                rep.holds('R17c', m, 'insert#%d' % k, 'only when the incoming state supersedes (or no entry exists)')
            else:
                rep.violation('R17c', m, 'unconditional-insert', m.loc(c.line), 'merge stores an incoming state without a must-pass supersedes test: views can move backwards')


def r17d(ctx, rep, cr):
    rep.rule('R17d', 'one order decides: in LWWMembershipState::merge, the closure that decides whether an incoming state replaces the held '
                     'one returns only after it has called GossipNodeState::supersedes (no return is reachable with the call cut). A '
                     'special case answered before the order is consulted (e.g. "a held Failed is final against a later Healthy of the '
                     'same incarnation") is decided by what the node already holds, so two nodes that receive the same updates in '
                     'opposite orders keep different views')
    n = 0
    for h in A.with_closures(cr.fns, LW + '::merge'):
        sup = A.calls_to(h, GS + '::supersedes')
        if not sup:
            continue
        n += 1
        rep.analysed(h)
        if h.name == LW + '::merge':
            # the decision is written in merge itself: an incoming state is stored only after supersedes was consulted,
            # or when nothing is held for that member (the absent outcome of the lookup)
            uses = A.Uses(h)
            absent = set()
            for c in A.calls_to(h, ('re', r'HashMap::<K, V, S, A>::get$')):
                absent |= A.call_outcome(h, c, uses).err
            ins = A.calls_to(h, ('re', r'HashMap::<K, V, S, A>::insert$'))
            R = A.reachable(h, [0], cut_blocks={c.bb for c in sup}, cut_edges=absent)
            bad = [c for c in ins if c.bb in R]
            if bad:
                rep.violation('R17d', h, 'decision-before-order', h.loc(bad[0].line),
                              'an incoming state can replace a held one on a path that did not consult supersedes: that path depends on '
                              'the held state alone, and merge stops being independent of arrival order')
            else:
                rep.holds('R17d', h, 'supersedes must-pass', 'decision written in merge itself')
            continue
        R = A.reachable(h, [0], cut_blocks={c.bb for c in sup})
        rets = [r for r in A.return_blocks(h) if r in R]
        if rets:
            rep.violation('R17d', h, 'decision-before-order', h.loc(lib.first_line(h, rets[0])),
                          'the replace-or-keep decision can be returned without consulting supersedes: that path depends on the held state '
                          'alone, and merge stops being independent of arrival order')
        else:
            rep.holds('R17d', h, 'supersedes must-pass', '')
    rep.floor('R17d', 'decision closures in merge', n, 1)


def r17e(ctx, rep, cr):
    rep.rule('R17e', 'a live view is only written through the order: an LWWMembershipState method that inserts a whole state into `states` '
                     'without consulting GossipNodeState::supersedes (update_local) is called only on a view created in the same function '
                     '(LWWMembershipState::new — the constructor seeding the local node). Called on a live view it overwrites whatever is '
                     'recorded: a refutation written with the node\'s in-memory counter lowers the recorded incarnation when a peer already '
                     'told this node a higher one, and the same two messages in the other order leave a different view')
    writers = []
    for name, f in sorted(cr.fns.items()):
        if not name.startswith(LW + '::') or '{closure' in name:
            continue
        defs = A.Defs(f)
        ins = []
        for c in A.calls_to(f, ('re', r'HashMap::<K, V, S(, A)?>::insert$')):
            a = c.arg_local(0)
            if a is None:
                continue
            fs, _ = A.origin_fields(f, a, defs)
            fs = A.place_fields(c.args[0][1]) + fs
            if any(x == LW + '.states' for x in fs):
                ins.append(c)
        if ins and not any(A.calls_to(h, ('re', r'GossipNodeState::supersedes$')) for h in A.with_closures(cr.fns, name)):
            writers.append(name)
    rep.floor('R17e', 'unconditional whole-state writers', len(writers), 1)
    n = 0
    for name, f in sorted(cr.fns.items()):
        if name.startswith(LW + '::'):
            continue
        defs = None
        for k, c in enumerate(c_ for c_ in A.calls(f) if c_.resolved in writers):
            n += 1
            rep.analysed(f)
            defs = defs or A.Defs(f)
            fresh = False
            if c.args and c.args[0][0] != 'k':
                sl = A.backward_slice(f, [c.args[0]], defs)
                fresh = any(x.endswith('LWWMembershipState::new') or x.endswith('LWWMembershipState::with_lamport_time') or
                            re.search(r'LWWMembershipState as (std::)?default::Default>::default$', x) for x in sl.calls) and \
                    not any(x.startswith(G) and '.' in x for x in sl.fields)
            if fresh:
                rep.holds('R17e', f, '%s#%d' % (lib.short(c.resolved), k), 'on a view created in this function')
            else:
                rep.violation('R17e', f, 'unconditional-write-into-live-view', f.loc(c.line),
                              '%s is called on a view that is already live: it replaces the recorded state without comparing incarnation / '
                              'timestamp, so the view can move backwards and depends on message order' % lib.short(c.resolved))
    rep.floor('R17e', 'call sites of unconditional writers', n, 1)


def r17f(ctx, rep, cr):
    rep.rule('R17f', 'every incoming entry meets the view: in LWWMembershipState::merge the loop over `incoming` looks each entry up in '
                     '`states` (the comparison that applies the full order, tie-break included) on every iteration — no entry is dropped '
                     'beforehand. A pre-filter that keeps "the newest entry per member" with the bare supersedes() decides exact ties by '
                     'position in the message, so one batch and the same updates delivered one by one end in different views')
    f = rep.require_fn('R17f', cr, LW + '::merge')
    if f is None:
        return
    defs = A.Defs(f)
    looks = []
    for c in A.calls_to(f, ('re', r'HashMap::<K, V, S(, A)?>::(get|get_mut|entry|contains_key)$')):
        a = c.arg_local(0)
        if a is None:
            continue
        fs, _ = A.origin_fields(f, a, defs)
        fs = A.place_fields(c.args[0][1]) + fs
        if any(x == LW + '.states' for x in fs):
            looks.append(c)
    dom = A.dominators(f)
    inloop = [c for c in looks if any((re.search(r'Iterator>?::next$', x.generic) or re.search(r'Iterator>?::next$', x.resolved)) and x.bb in dom[c.bb] for x in A.calls(f))]
    if not rep.floor('R17f', 'view lookups inside merge\'s loop', len(inloop), 1):
        return
    rep.analysed(f)
    c = inloop[0]
    if lib.loop_iterations_skipping(f, c, also={x.bb for x in inloop}) is not None:
        rep.violation('R17f', f, 'entry-dropped-before-the-view', f.loc(c.line),
                      'merge can skip an incoming entry without comparing it with the view: what survives the pre-selection depends on the '
                      'order of entries inside the message')
    else:
        rep.holds('R17f', f, 'loop', 'every entry is compared with the view')


def run(ctx, rep):
    cr = ctx.crate('tensor_chain')
    r17a(ctx, rep, cr)
    r17b(ctx, rep, cr)
    r17c(ctx, rep, cr)
    r17d(ctx, rep, cr)
    r17e(ctx, rep, cr)
    r17f(ctx, rep, cr)
