"""E4 — compile_fail witnesses with compiling twins (thorough tier)."""
import os, re, shutil, subprocess
import facts

WDIR = os.path.join(facts.VERIF, 'witness')


def run(rep, rule, names):
    """Run the doctests of witness/ and record one instance per witness named in `names`
    (struct names in witness/src/lib.rs). A witness holds when its compile_fail tests and its twin all pass."""
    shutil.copy(os.path.join(facts.REPO, 'Cargo.lock'), os.path.join(WDIR, 'Cargo.lock'))
    env = dict(os.environ)
    env['CARGO_NET_OFFLINE'] = 'true'
    env['CARGO_TARGET_DIR'] = os.path.join(facts.CACHE, 'witness-target')
    r = subprocess.run(['cargo', '+nightly', 'test', '--doc', '--offline'], cwd=WDIR, env=env,
                       stdout=subprocess.PIPE, stderr=subprocess.STDOUT, text=True)
    res = {}
    for m in re.finditer(r'^test src/lib\.rs - (\w+) \(line (\d+)\)( - compile fail)? \.\.\. (\w+)', r.stdout, re.M):
        res.setdefault(m.group(1), []).append((bool(m.group(3)), m.group(4)))
    rep.rule(rule + 'w', 'type-level witness: the state the MIR rule enumerates writers of is not nameable / not accessible outside its '
                         'module (compile_fail with the expected error code), paired with a compiling twin')
    for n in names:
        tests = res.get(n, [])
        cf = [t for t in tests if t[0]]
        tw = [t for t in tests if not t[0]]
        if not cf or not tw:
            rep.violation(rule + 'w', 'witness::' + n, 'missing', 'witness/src/lib.rs',
                          'anchor-missing: witness %s did not run (compile_fail: %d, twins: %d); cargo output tail: %s' % (n, len(cf), len(tw), r.stdout[-400:]))
        elif all(t[1] == 'ok' for t in tests):
            rep.holds(rule + 'w', 'witness::' + n, 'compile_fail ×%d + twin ×%d' % (len(cf), len(tw)), '')
        else:
            rep.violation(rule + 'w', 'witness::' + n, 'accessible', 'witness/src/lib.rs',
                          'the witness no longer fails to compile (or its twin no longer compiles): the protected state became reachable from outside its module')
