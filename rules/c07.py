"""C07 Snapshots — coverage, writer/reader tables, atomic replace, header agreement."""
import re
import analyses as A
import lib
import c08

TS = 'tensor_store::'
SR = TS + 'slab_router::SlabRouter'
SRS = TS + 'slab_router::SlabRouterSnapshot'
ASSUMPTIONS = ['value equality of the round trip and the reconstruction tolerance are not decided here',
               'durability of rename ordering under power loss (fsync of the temp file) is outside the crash model checked here']
FILE_WRITE_OPEN = re.compile(r'fs::File::create$|fs::OpenOptions::open$|fs::write$')


def r07a(ctx, rep, cr):
    rep.rule('R07a', 'slab coverage: every slab field of SlabRouter has a same-named field in SlabRouterSnapshot, is read by '
                     'SlabRouter::snapshot through the slab\'s snapshot(), and is rebuilt by SlabRouter::restore and restore_with_wal from '
                     'that snapshot field through the slab\'s restore(); the compressed store snapshot, which saves only what scan/get '
                     'reach, must reach every slab that code outside the router writes through')
    a = cr.adts.get(SR)
    b = cr.adts.get(SRS)
    if a is None or b is None:
        rep.violation('R07a', 'anchor-missing', 'SlabRouter/SlabRouterSnapshot', '-', 'anchor-missing: struct not found')
        return
    slabs = [f[0] for f in a['variants'][0]['fields'] if f[1].startswith(TS) and not re.search(r'Atomic|Option<|Mutex|TensorWal', f[1])]
    snapf = {f[0] for f in b['variants'][0]['fields']}
    rep.floor('R07a', 'slab fields of SlabRouter', len(slabs), 4)
    snap = rep.require_fn('R07a', cr, SR + '::snapshot')
    rests = [rep.require_fn('R07a', cr, SR + '::restore'), rep.require_fn('R07a', cr, SR + '::restore_with_wal')]
    for fld in slabs:
        if fld not in snapf:
            rep.violation('R07a', SR, 'snapshot-field-' + fld, '-', 'SlabRouterSnapshot has no field for the `%s` slab: it is not saved' % fld)
            continue
        if snap is not None:
            ok = False
            d = A.Defs(snap)
            for bl in snap.bbs:
                for st in bl['s']:
                    if st[1][0] == 'agg' and st[1][1] == SRS:
                        op = st[1][2][st[1][3].index(fld)]
                        sl = A.backward_slice(snap, [op], d)
                        if (SR + '.' + fld) in sl.fields and any(c.endswith('::snapshot') for c in sl.calls):
                            ok = True
            if ok:
                rep.holds('R07a', snap, 'snapshot ' + fld, '')
            else:
                rep.violation('R07a', snap, 'snapshot-skips-' + fld, snap.loc(), 'SlabRouter::snapshot does not fill `%s` from self.%s.snapshot()' % (fld, fld))
        for r in rests:
            if r is None:
                continue
            ok = False
            d = A.Defs(r)
            for bl in r.bbs:
                for st in bl['s']:
                    if st[1][0] == 'agg' and st[1][1] == SR:
                        op = st[1][2][st[1][3].index(fld)]
                        sl = A.backward_slice(r, [op], d)
                        if (SRS + '.' + fld) in sl.fields and any(c.endswith('::restore') for c in sl.calls):
                            ok = True
            if ok:
                rep.holds('R07a', r, 'restore ' + fld, '')
            else:
                rep.violation('R07a', r, 'restore-skips-' + fld, r.loc(), '%s does not rebuild `%s` from the snapshot\'s %s' % (lib.short(r.name), fld, fld))
    # compressed store snapshot
    f = rep.require_fn('R07a', cr, TS + 'TensorStore::save_snapshot_compressed')
    if f is not None:
        cg = ctx.callgraph(['tensor_store'])
        reached = set()
        for c in A.calls(f):
            if c.resolved.startswith(SR + '::'):
                for n in cg.reach([c.resolved]):
                    g = cr.fns.get(n)
                    if g is not None and n.startswith(SR + '::'):
                        reached |= set(c08._receiver_fields(g, A.Defs(g), only_mut=False).keys())
        users = {}
        for cn in c08.CRATES:
            for g in ctx.crate(cn).fns.values():
                if g.name.startswith(SR + '::'):
                    continue
                for bl in g.bbs:
                    if bl['cleanup']:
                        continue
                    for st in bl['s']:
                        if st[1][0] == 'ref':
                            for x in A.place_fields(st[1][1]):
                                if x.startswith(SR + '.'):
                                    users.setdefault(x[len(SR) + 1:], set()).add(g.name)
        for fld in slabs:
            if fld in reached:
                rep.holds('R07a', f, 'compressed covers ' + fld, '')
            elif users.get(fld):
                rep.violation('R07a', f, 'compressed-skips-' + fld, f.loc(),
                              'the compressed snapshot saves only entries reachable through scan()/get() (%s) and never reads the `%s` slab, '
                              'which %s writes through: that data class is missing from the loaded store' % (
                                  sorted(reached), fld, ', '.join(lib.short(x) for x in sorted(users[fld])[:2])))
            else:
                rep.candidate('R07a', f, fld, 'not covered by the compressed snapshot, unused outside the router today')


def _arm_aggregate(f, defs, tb, stop, prefix):
    """first aggregate of kind prefix::* built in the arm starting at tb; returns (variant, operands, names)."""
    R = A.reachable(f, [tb], cut_blocks=stop)
    for b in sorted(R):
        for st in f.bbs[b]['s']:
            if st[1][0] == 'agg' and st[1][1].startswith(prefix + '::'):
                return st[1][1].split('::')[-1], st[1], b
    return None, None, None


def _payload_direct(f, defs, op, variant, depth=10):
    """the operand is the matched payload `(scalar as <variant>).0` through moves / refs / clone / deref only"""
    for _ in range(depth):
        if op[0] == 'k':
            return False
        pl = op[1]
        if any(isinstance(p, str) and p == 'as ' + variant for p in pl[1]):
            return True
        d = A.single_def(defs, pl[0])
        if d is None:
            return False
        if d[2] == 'call':
            c = d[3]
            if re.search(r'(Clone>::clone|::clone|Deref>::deref|Deref::deref|ToOwned>::to_owned|::to_owned|::to_vec)$', c.generic + ' ' + c.resolved) and c.args and c.args[0][0] != 'k':
                op = c.args[0]
                continue
            return False
        rv = d[3][1]
        if rv[0] == 'use':
            op = rv[1]
        elif rv[0] == 'ref':
            op = ['c', rv[1]]
        else:
            return False
    return False


def r07b(ctx, rep, cr):
    rep.rule('R07b', 'compressed format writer/reader tables: for every ScalarValue variant V the save arm builds a CompressedScalar W '
                     'whose payload is V\'s payload passed through copy/clone only, and the load arm for W rebuilds V '
                     '(load∘save is the identity on variants and does not transform the payload)')
    save = rep.require_fn('R07b', cr, TS + 'TensorStore::save_snapshot_compressed')
    load = rep.require_fn('R07b', cr, TS + 'TensorStore::load_snapshot_compressed')
    sv = cr.adts.get(TS + 'ScalarValue')
    cc = ctx.crate('tensor_compress')
    cs = cc.adts.get('tensor_compress::format::CompressedScalar')
    if save is None or load is None or sv is None or cs is None:
        if sv is None or cs is None:
            rep.violation('R07b', 'anchor-missing', 'ScalarValue/CompressedScalar', '-', 'anchor-missing: enum not found')
        return
    CSN = 'tensor_compress::format::CompressedScalar'
    ds = lib.enum_dispatches(save, TS + 'ScalarValue')
    dl = lib.enum_dispatches(load, CSN)
    if not ds or not dl:
        rep.violation('R07b', save if not ds else load, 'dispatch', '-', 'anchor-missing: no dispatch on %s' % ('ScalarValue' if not ds else 'CompressedScalar'))
        return
    sdefs, ldefs = A.Defs(save), A.Defs(load)
    stg = lib.variant_targets(sv, ds[0][1])
    ltg = lib.variant_targets(cs, dl[0][1])
    smap, payload_ok = {}, {}
    for v, tb in stg.items():
        stop = {b for vv, b in stg.items() if b != tb}
        w, agg, _ = _arm_aggregate(save, sdefs, tb, stop, CSN)
        smap[v] = w
        if agg is not None and agg[2]:
            payload_ok[v] = _payload_direct(save, sdefs, agg[2][0], v)
        else:
            payload_ok[v] = True
    lmap = {}
    for w, tb in ltg.items():
        stop = {b for vv, b in ltg.items() if b != tb}
        v, agg, _ = _arm_aggregate(load, ldefs, tb, stop, TS + 'ScalarValue')
        lmap[w] = v
    rep.floor('R07b', 'ScalarValue variants', len(stg), 4)
    for v in [x['n'] for x in sv['variants']]:
        w = smap.get(v)
        back = lmap.get(w) if w else None
        if w is None:
            rep.violation('R07b', save, 'no-arm-' + v, save.loc(), 'ScalarValue::%s has no save arm building a CompressedScalar' % v)
        elif back != v or not payload_ok.get(v, False):
            rep.violation('R07b', save, 'variant-' + v, save.loc(),
                          'ScalarValue::%s is saved as CompressedScalar::%s%s and loads back as ScalarValue::%s: the value does not survive the compressed round trip' % (
                              v, w, '' if payload_ok.get(v, False) else ' with a payload that is not the matched value (rebuilt, not copied)', back))
        else:
            rep.holds('R07b', save, v, '→ %s → %s' % (w, back))


def r07c(ctx, rep, cr):
    rep.rule('R07c', 'atomic replace: each save function never opens its destination path for writing; it creates a sibling temp path '
                     'derived from the destination, every write goes to that file, and fs::rename(temp, destination) is reached only '
                     'after every write succeeded and is the last file operation on the success path')
    for name in (TS + 'snapshot::save_v3_with_compression', TS + 'TensorStore::save_snapshot_compressed'):
        f = rep.require_fn('R07c', cr, name)
        if f is None:
            continue
        defs, uses = A.Defs(f), A.Uses(f)
        creates = [c for c in A.calls(f) if FILE_WRITE_OPEN.search(c.resolved) or re.search(r'File::create$', c.generic)]
        renames = [c for c in A.calls(f) if re.search(r'fs::rename$', c.resolved) or re.search(r'fs::rename$', c.generic)]
        writes = [c for c in A.calls(f) if re.search(r'Write>::write_all$|Write::write_all$|Write>::write$|zstd::stream::(functions::)?copy_encode$|io::copy$', c.resolved + ' ' + c.generic)]
        if not creates or not renames or not writes:
            rep.violation('R07c', f, 'shape', f.loc(), 'anchor-missing: create (%d) / write_all (%d) / rename (%d)' % (len(creates), len(writes), len(renames)))
            continue
        # temp path derived from the destination through with_extension / with_file_name / join
        ok_tmp = True
        for c in creates:
            sl = A.backward_slice(f, [c.args[0]], defs)
            if not any(re.search(r'Path::with_extension$|Path::with_file_name$|PathBuf::set_extension$|Path::join$', x) for x in sl.calls):
                ok_tmp = False
        if ok_tmp:
            rep.holds('R07c', f, 'temp sibling', 'file created at a path derived with with_extension/with_file_name')
        else:
            rep.violation('R07c', f, 'writes-destination', f.loc(creates[0].line), 'the save function creates/truncates a file at a path that is not a derived temp sibling: a crash mid-write leaves the snapshot path truncated')
        # rename(temp, dest): arg0 slices from the same derivation, arg1 does not
        rn = renames[0]
        s0 = A.backward_slice(f, [rn.args[0]], defs)
        s1 = A.backward_slice(f, [rn.args[1]], defs)
        d0 = any(re.search(r'with_extension$|with_file_name$', x) for x in s0.calls)
        d1 = any(re.search(r'with_extension$|with_file_name$', x) for x in s1.calls)
        if d0 and not d1:
            rep.holds('R07c', f, 'rename(temp, dest)', '')
        else:
            rep.violation('R07c', f, 'rename-args', f.loc(rn.line), 'rename is not temp → destination (temp derived: %s, dest derived: %s)' % (d0, d1))
        # every write's Ok edge is must-pass for the rename; nothing file-related after rename
        okw = set()
        for w in writes:
            okw_w = A.call_outcome(f, w, uses).ok
            R = A.reachable(f, [0], cut_edges=okw_w)
            if rn.bb in R and okw_w:
                # acceptable only if this write is on an alternative branch (compress vs not)
                pass
            okw |= okw_w
        R = A.reachable(f, [0], cut_edges=okw)
        if rn.bb in R:
            rep.violation('R07c', f, 'rename-before-write', f.loc(rn.line), 'the rename is reachable on a path where a write did not succeed')
        else:
            rep.holds('R07c', f, 'writes→rename', 'rename only after successful writes')
        after = A.reachable(f, [rn.target]) if rn.target is not None and rn.target >= 0 else set()
        late = [c for c in writes + creates if c.bb in after]
        if late:
            rep.violation('R07c', f, 'write-after-rename', f.loc(late[0].line), 'the file is written after it was renamed into place')
        else:
            rep.holds('R07c', f, 'rename last', '')
        # a buffering writer around the temp file must be flushed (Ok) before the rename: what sits in its buffer
        # reaches the file only at drop time, after the rename, with errors swallowed
        buffered = [l for l, t in enumerate(f.locals) if re.match(r'^(std::io::)?(BufWriter|LineWriter)<', t) or re.match(r'^zstd::(stream::)?(write::)?(Encoder|AutoFinishEncoder)<', t)]
        if buffered:
            fl = [c for c in A.calls(f) if re.search(r'Write>::flush$|Write::flush$|BufWriter<.*>::into_inner$|BufWriter::<W>::into_inner$|Encoder.*::finish$', c.resolved + ' ' + c.generic)]
            okf = set()
            for c in fl:
                okf |= A.call_outcome(f, c, uses).ok
            Rf = A.reachable(f, [0], cut_edges=okf)
            if not fl or not okf or rn.bb in Rf:
                rep.violation('R07c', f, 'rename-before-flush', f.loc(rn.line),
                              'the temp file is written through a buffering writer and renamed into place on a path with no successful flush: the '
                              'buffered tail is written after the rename (at drop), so a crash or write error leaves a truncated file at the snapshot path')
            else:
                rep.holds('R07c', f, 'flush→rename', 'buffered writer flushed before the rename')
        okr = A.call_outcome(f, rn, uses).ok
        if lib.success_return_reachable(f, [0], cut_edges=okr):
            rep.violation('R07c', f, 'ok-without-rename', f.loc(), 'the save can return Ok without having renamed the temp file into place')
        else:
            rep.holds('R07c', f, 'Ok ⇒ renamed', '')


def _const_indices(f, defs, op):
    """constant indices used to read `buf[...]` on the slice of operand op."""
    sl = A.backward_slice(f, [op], defs)
    idx = set()
    for l in sl.locals:
        for d in defs.defs.get(l, []):
            if d[2] == 'st':
                for pl in A.rvalue_places(d[3][1]):
                    for p in pl[1]:
                        if isinstance(p, str) and re.match(r'^\[\d+\]$', p):
                            il = int(p[1:-1])
                            dd = A.single_def(defs, il)
                            if dd and dd[2] == 'st' and dd[3][1][0] == 'use' and dd[3][1][1][0] == 'k':
                                v = A._const_val(dd[3][1][1][1])
                                if v is not None:
                                    idx.add(v)
    return idx


def r07d(ctx, rep, cr):
    rep.rule('R07d', 'SnapshotHeader::to_raw_bytes and from_raw_bytes use the same byte range for the same field, and every loader '
                     'reaches a success return only through the Ok edge of SnapshotHeader::validate')
    H = TS + 'snapshot::SnapshotHeader'
    w = rep.require_fn('R07d', cr, H + '::to_raw_bytes')
    r = rep.require_fn('R07d', cr, H + '::from_raw_bytes')
    if w is not None and r is not None:
        wd, rd = A.Defs(w), A.Defs(r)
        # writer: index_mut(buf, Range{start,end}) then copy_from_slice(dst, src) with src sliced from a header field
        wmap = {}
        import c05
        for c in A.calls_to(w, ('re', r'copy_from_slice$')):
            src = A.backward_slice(w, [c.args[1]], wd)
            fld = [x.split('.')[-1] for x in src.fields if x.startswith(H + '.')]
            pc = c05._producer(w, wd, c.arg_local(0)) if c.arg_local(0) is not None else None
            rng = None
            if pc is not None and re.search(r'IndexMut<.*>>::index_mut$|IndexMut::index_mut$|index_mut$', pc.generic + ' ' + pc.resolved) and len(pc.args) > 1:
                ra = pc.args[1]
                if ra[0] != 'k':
                    d = A.single_def(wd, ra[1][0])
                    if d and d[2] == 'st' and d[3][1][0] == 'agg' and d[3][1][1].endswith('ops::Range'):
                        ks = [A._const_val(o[1]) if o[0] == 'k' else None for o in d[3][1][2]]
                        if len(ks) == 2 and None not in ks:
                            rng = set(range(ks[0], ks[1]))
            if fld and rng is not None:
                wmap[fld[0]] = rng
        rmap = {}
        for b in r.bbs:
            for st in b['s']:
                if st[1][0] == 'agg' and st[1][1] == H:
                    for nm, op in zip(st[1][3], st[1][2]):
                        rmap[nm] = _const_indices(r, rd, op)
        rep.floor('R07d', 'header fields written', len(wmap), 4)
        for fld in sorted(set(wmap) | set(rmap)):
            if wmap.get(fld) == rmap.get(fld) and wmap.get(fld):
                rep.holds('R07d', w, 'layout ' + fld, 'bytes %d..%d' % (min(wmap[fld]), max(wmap[fld]) + 1))
            else:
                rep.violation('R07d', w, 'layout-' + fld, w.loc(), 'header field `%s` is written at bytes %s and read from bytes %s' % (fld, sorted(wmap.get(fld, [])), sorted(rmap.get(fld, []))))
    n = 0
    for name in (TS + 'snapshot::load_v3', SR + '::from_bytes', TS + 'TensorStore::load_snapshot_compressed'):
        f = rep.require_fn('R07d', cr, name)
        if f is None:
            continue
        n += 1
        uses = A.Uses(f)
        vs = A.calls_to(f, ('re', r'(SnapshotHeader|format::Header)::validate$'))
        ok = set()
        for c in vs:
            ok |= A.call_outcome(f, c, uses).ok
        if not vs or not ok:
            rep.violation('R07d', f, 'no-validate', f.loc(), 'the loader does not validate the snapshot header')
        elif lib.success_return_reachable(f, [0], cut_edges=ok):
            rep.violation('R07d', f, 'validate-bypass', f.loc(vs[0].line), 'the loader can return Ok without the header having validated')
        else:
            rep.holds('R07d', f, 'validate must-pass', '')


def r07e(ctx, rep, cr):
    rep.rule('R07e', 'a loader answers from the payload: load_v3, SlabRouter::from_bytes and load_snapshot_compressed reach a success return '
                     'only through the Ok edge of the payload decode (bitcode::deserialize); no header field (an estimated entry count, a '
                     'flag) selects a path that returns a store without decoding what was saved')
    n = 0
    for name in (TS + 'snapshot::load_v3', SR + '::from_bytes', TS + 'TensorStore::load_snapshot_compressed'):
        f = rep.require_fn('R07e', cr, name)
        if f is None:
            continue
        n += 1
        uses = A.Uses(f)
        dec = A.calls_to(f, ('re', r'^bitcode::deserialize$'))
        ok = set()
        for c in dec:
            ok |= A.call_outcome(f, c, uses).ok
        if not dec or not ok:
            rep.violation('R07e', f, 'no-decode', f.loc(), 'anchor-missing: the loader has no bitcode::deserialize call with a recognised Ok edge')
            continue
        rets = lib.success_return_reachable(f, [0], cut_edges=ok)
        if rets:
            rep.violation('R07e', f, 'decode-bypass', f.loc(lib.first_line(f, rets[0])),
                          'the loader can return Ok without having decoded the payload: whatever the skipped path assumes about the file '
                          '(e.g. a header count that the writer only estimates) decides what comes back, not what was saved')
        else:
            rep.holds('R07e', f, 'decode must-pass', '%d decode call(s)' % len(dec))
    rep.floor('R07e', 'loaders', n, 3)


def r07f(ctx, rep, cr):
    rep.rule('R07f', 'a loader refuses nothing a saver wrote: in everything reachable (inside tensor_store) from load_v3, '
                     'SlabRouter::from_bytes and load_snapshot_compressed, a comparison of a payload / buffer length with a bound made of '
                     'constants only (a size or ratio policy, not header validation or format arithmetic) has a counterpart on the same '
                     'constant in the save path — otherwise save renames over the previous good snapshot a file that load then rejects, '
                     'and the path holds neither the old nor the new store')
    cg = ctx.callgraph(['tensor_store'])
    starts = [n for n in (TS + 'snapshot::load_v3', SR + '::from_bytes', TS + 'TensorStore::load_snapshot_compressed') if n in cr.fns]
    readers = [cg.fns[n] for n in cg.reach(starts) if n in cg.fns and n.startswith(TS) and not re.search(r'::(save|to_bytes|snapshot_bytes|write)\w*', n)]
    writers = [g for n, g in cr.fns.items() if re.search(r'snapshot::save\w*|TensorStore::save_snapshot\w*|SlabRouter::to_bytes|snapshot::\w*compress\w*', A.parent_fn(n))
               and not re.search(r'decompress', n)]
    bad, n = lib.reader_only_policies(readers, writers)
    for k, (g, line, op, cs) in enumerate(bad):
        rep.analysed(g)
        rep.violation('R07f', g, 'loader-only-limit', g.loc(line),
                      'the loader rejects a payload by comparing its size with %s, and no save function applies that bound: a store that '
                      'compresses / serialises beyond it is saved (replacing the previous snapshot) and can never be loaded again' % ', '.join(cs))
    if not bad:
        rep.holds('R07f', starts[0] if starts else 'loaders', 'size policies', '%d loader-side function(s), %d policy comparison(s), all matched by the savers' % (len(readers), n))
    rep.floor('R07f', 'functions reachable from the loaders', len(readers), 5)


def _router_slabs(cr, name, depth=2, seen=None):
    """SlabRouter fields a SlabRouter method touches, itself or through other SlabRouter methods"""
    seen = seen if seen is not None else set()
    f = cr.fns.get(name)
    if f is None or name in seen:
        return set()
    seen.add(name)
    out = set()
    for g in A.with_closures(cr.fns, name):   # `index.get(key).and_then(|id| self.embeddings.get(id))`: closures count
        out |= {x.split('.')[-1] for x in A.field_reads(g) if x.startswith(SR + '.')}
        if depth > 0:
            for c in A.calls(g):
                if c.resolved.startswith(SR + '::') and '{closure' not in c.resolved:
                    out |= _router_slabs(cr, c.resolved, depth - 1, seen)
    return out


def r07g(ctx, rep, cr):
    rep.rule('R07g', 'a restore that copies a decoded image into the live store key by key reads the image through every slab the store '
                     'writes keys to: in TensorStore::restore_from_bytes the SlabRouter method(s) that enumerate the decoded router touch '
                     'every slab SlabRouter::exists consults (what "this key is in the store" means), and enumerator and getter together '
                     'touch every slab SlabRouter::put routes to (the slab set is what SlabRouter::clear clears). An enumerator '
                     'that walks one slab only (scan_filter_map: metadata) silently drops the key classes kept elsewhere — cache-ring keys, '
                     'embedding keys — although the live store was cleared first')
    f = rep.require_fn('R07g', cr, TS + 'TensorStore::restore_from_bytes')
    if f is None:
        return
    slabs = _router_slabs(cr, SR + '::clear', 0)
    need_enum = _router_slabs(cr, SR + '::exists') & slabs
    need_all = _router_slabs(cr, SR + '::put') & slabs
    rep.floor('R07g', 'slabs cleared by SlabRouter::clear', len(slabs), 7)
    if not need_enum or not need_all:
        rep.violation('R07g', f, 'anchor', f.loc(), 'anchor-missing: SlabRouter::exists / put touch no slab field')
        return
    defs = A.Defs(f)
    enum, got = set(), set()
    names = []
    for fn_ in [f] + [g for n, g in cr.fns.items() if n.startswith(f.name + '::{closure')]:
        d_ = defs if fn_ is f else A.Defs(fn_)
        for c in A.calls(fn_):
            if not c.resolved.startswith(SR + '::') or not c.args or c.args[0][0] == 'k':
                continue
            fs, root = A.origin_fields(fn_, c.args[0][1][0], d_)
            fs = A.place_fields(c.args[0][1]) + fs
            if any(x.endswith('TensorStore.router') for x in fs):
                continue   # the live router
            sl = _router_slabs(cr, c.resolved)
            got |= sl
            if c.dest and fn_.locals[c.dest[0]].startswith('std::vec::Vec<'):
                enum |= sl
                names.append(lib.short(c.resolved))
    if not names:
        # nothing is copied key by key (the image is swapped in whole): nothing to miss
        rep.holds('R07g', f, 'no key-by-key copy', 'the decoded router is not enumerated')
        return
    miss_e, miss_a = sorted(need_enum - enum), sorted(need_all - got)
    if miss_e or miss_a:
        rep.violation('R07g', f, 'partial-enumeration', f.loc(),
                      'the decoded image is enumerated with %s, which never looks at %s: keys kept there are not copied back, and the live '
                      'store was cleared first' % (', '.join(sorted(set(names))), ', '.join('SlabRouter.' + x for x in (miss_e or miss_a))))
    else:
        rep.holds('R07g', f, 'enumerator covers the key slabs', '%s reads %s' % (', '.join(sorted(set(names))), ', '.join(sorted(enum))))


NARROWING = re.compile(r'Iterator::(filter|filter_map|skip|skip_while|take|take_while|step_by|find)$|::retain$|::truncate$|::dedup\w*$|'
                       r'(BTreeMap|HashMap|BTreeSet|HashSet|Vec|VecDeque)::<.*>::(clear|drain|remove|pop|pop_front|pop_back|split_off)$')
# one line of reason per exception
SNAPSHOT_MAY_NARROW = {TS + 'cache_ring::CacheRing::<V>::snapshot': 'the ring is an array of Option slots; filter_map drops the empty slots, not entries'}


def r07h(ctx, rep, cr):
    rep.rule('R07h', 'a slab\'s image is the whole slab: the snapshot() of every slab SlabRouter::snapshot calls copies its containers as '
                     'they are — no narrowing adaptor (filter, skip, take, retain, …) in the function or in a closure it passes on. What an '
                     'image leaves out is gone after load / restore_from_bytes / ROLLBACK TO: a table that happens to have no live rows is '
                     'still a table (its schema key comes back, the slab table does not, and SELECT fails with `table not found`)')
    f = rep.require_fn('R07h', cr, SR + '::snapshot')
    if f is None:
        return
    snaps = sorted({c.resolved for c in A.calls(f) if re.search(r'::snapshot$', c.resolved) and c.resolved.startswith(TS) and c.resolved in cr.fns})
    if not rep.floor('R07h', 'slab snapshot functions called by SlabRouter::snapshot', len(snaps), 4):
        return
    for nm in snaps:
        g = cr.fns[nm]
        rep.analysed(g)
        nar = set()
        for h in A.with_closures(cr.fns, nm):
            for c in A.calls(h):
                for x in (c.resolved, c.generic):
                    if NARROWING.search(x):
                        nar.add(lib.short(x))
                # a narrowing function handed over by name: `.for_each(BTreeMap::clear)`
                for a in c.args:
                    if a[0] == 'k':
                        m = re.search(r'((?:std|alloc|core)::[\w:<>, ]+::(?:clear|retain|truncate|drain|pop|remove))\b', str(a[1]))
                        if m:
                            nar.add(lib.short(m.group(1)))
        if nar and nm in SNAPSHOT_MAY_NARROW:
            rep.holds('R07h', g, 'snapshot', 'narrowing allowed here: %s' % SNAPSHOT_MAY_NARROW[nm])
        elif nar:
            rep.violation('R07h', g, 'partial-image', g.loc(),
                          'the slab\'s snapshot passes its contents through %s: whatever is filtered out is missing from every snapshot, '
                          'checkpoint and rollback image' % ', '.join(sorted(nar)))
        else:
            rep.holds('R07h', g, 'snapshot', 'copies its containers whole')


_SNAP_MUT = re.compile(r'::(insert|remove|push|push_back|clear|retain|entry|store|fetch_add|fetch_sub|swap|get_or_insert\w*|extend|truncate|pop)$')


def r07i(ctx, rep, cr):
    rep.rule('R07i', 'taking an image does not change the slab, and the image is not taken from a side store: the snapshot() of every slab '
                     'SlabRouter::snapshot calls performs no mutating call (insert / remove / push / clear / store / fetch_* …) on a field of '
                     'its own slab and assigns none of them. A snapshot that keeps a cache of "what it wrote last time" inside the slab '
                     'serves stale entries for keys that were overwritten in place since — the image then holds the pre-overwrite vector, '
                     'and a load or a rollback brings it back')
    f = rep.require_fn('R07i', cr, SR + '::snapshot')
    if f is None:
        return
    snaps = sorted({c.resolved for c in A.calls(f) if re.search(r'::snapshot$', c.resolved) and c.resolved.startswith(TS) and c.resolved in cr.fns})
    if not rep.floor('R07i', 'slab snapshot functions called by SlabRouter::snapshot', len(snaps), 4):
        return
    for nm in snaps:
        struct = re.sub(r'::<[^>]*>', '', nm.rsplit('::', 1)[0])
        g0 = cr.fns[nm]
        rep.analysed(g0)
        bad = []
        # fields of the slab that snapshot() holds an exclusive guard on (Mutex::lock / RwLock::write)
        import lockgraph as LG
        excl = set()
        for g in A.with_closures(cr.fns, nm):
            gd = A.Defs(g)
            for gu in A.guards(g, gd):
                if any(x.startswith(struct + '.') for x in gu.lock_fields) and re.search(r'MutexGuard|RwLockWriteGuard', gu.ty):
                    excl |= {x.split('.')[-1] for x in gu.lock_fields if x.startswith(struct + '.')}
        for g in A.with_closures(cr.fns, nm):
            gd = A.Defs(g)
            for c in A.calls(g):
                if not (_SNAP_MUT.search(c.resolved) or _SNAP_MUT.search(c.generic)) or not c.args or c.args[0][0] == 'k':
                    continue
                fs, root = A.origin_fields(g, c.args[0][1][0], gd)
                fs = A.place_fields(c.args[0][1]) + fs
                if any(x.startswith(struct + '.') for x in fs):
                    bad.append('%s on %s' % (c.resolved.split('::')[-1], [x for x in fs if x.startswith(struct + '.')][0].split('.')[-1]))
                elif excl and g.name != nm and root == 1:
                    # inside a closure the receiver is a captured variable; with an exclusive guard on a slab field held by
                    # snapshot(), a mutation through a capture is a mutation of that field
                    bad.append('%s through a capture, while %s is held exclusively' % (c.resolved.split('::')[-1], '/'.join(sorted(excl))))
            for w in A.field_writes(g):
                if w[2].startswith(struct + '.') and w[3][1] and any(x.startswith(struct + '.') for x in A.place_fields(w[3])) and \
                        A.origin_fields(g, w[3][0], gd)[1] in range(1, g.argc + 1):
                    bad.append('assignment to ' + w[2].split('.')[-1])
        if bad:
            rep.violation('R07i', g0, 'snapshot-mutates-slab', g0.loc(),
                          'snapshot() changes the slab it is imaging (%s): state kept between snapshots is not invalidated by every write '
                          'path, and the image can contain values that were overwritten' % ', '.join(sorted(set(bad))[:4]))
        else:
            rep.holds('R07i', g0, 'snapshot', 'read-only on its slab')


def run(ctx, rep):
    cr = ctx.crate('tensor_store')
    r07a(ctx, rep, cr)
    r07b(ctx, rep, cr)
    r07c(ctx, rep, cr)
    r07d(ctx, rep, cr)
    r07e(ctx, rep, cr)
    r07f(ctx, rep, cr)
    r07g(ctx, rep, cr)
    r07h(ctx, rep, cr)
    r07i(ctx, rep, cr)
