"""C02 Durable store — crash consistency, structural part."""
import re
import analyses as A
import lib
import wal_rules

SR = 'tensor_store::slab_router::SlabRouter::'
TW = 'tensor_store::wal::TensorWal::'
ASSUMPTIONS = ['File::sync_all makes the preceding writes durable', 'byte-granular recovery equality is not decided here']


def option_field_edges(f, defs, uses, field_suffix):
    """(some_edges, none_edges) of `if let Some(x) = &self.<field>` style tests on a field."""
    some, none = set(), set()
    for i, b in enumerate(f.bbs):
        if b['cleanup']:
            continue
        for st in b['s']:
            if st[1][0] != 'disc':
                continue
            pl = st[1][1]
            fs = A.place_fields(pl)
            if not fs:
                fs, _ = A.origin_fields(f, pl[0], defs)
            if fs and fs[-1].endswith(field_suffix) and f.locals[pl[0]].lstrip('&').startswith('std::option::Option<') or \
               fs and fs[-1].endswith(field_suffix) and A.place_fields(pl):
                o = A.outcome_edges(f, st[0][0], kind='disc_option', uses=uses)
                some |= o.ok
                none |= o.err
    return some, none


def calls_with_entry(f, defs, pat, variant):
    """calls matching pat whose (any) argument is built from the aggregate `variant`."""
    out = []
    for c in A.calls_to(f, pat):
        for a in c.args[1:]:
            if a[0] == 'k':
                continue
            if ('agg:' + variant) in lib.value_sig(f, defs, a):
                out.append(c)
                break
    return out


def r02a(ctx, rep, cr):
    rep.rule('R02a', 'put_durable/delete_durable: from the WAL-configured edge, the in-memory apply is reachable only through the '
                     'Ok-edge of the TensorWal::append of the MetadataSet/MetadataDelete record; TensorWal::append returns Ok only '
                     'after write_entry_no_sync and maybe_sync succeeded; maybe_sync\'s Immediate arm flushes then sync_all\'s; '
                     'sync/fsync likewise')
    for fname, variant, apply_name in (('put_durable', 'tensor_store::wal::WalEntry::MetadataSet', SR + 'put'),
                                       ('delete_durable', 'tensor_store::wal::WalEntry::MetadataDelete', SR + 'delete')):
        f = rep.require_fn('R02a', cr, SR + fname)
        if f is None:
            continue
        defs, uses = A.Defs(f), A.Uses(f)
        some, none = option_field_edges(f, defs, uses, 'SlabRouter.wal')
        apps = calls_with_entry(f, defs, TW + 'append', variant)
        applies = A.calls_to(f, apply_name)
        if not some or not apps or not applies:
            rep.violation('R02a', f, 'shape', f.loc(),
                          'anchor-missing: %s no longer has the shape wal-test (%d Some edges) / append(%s) (%d) / apply (%d)' % (
                              fname, len(some), variant.split('::')[-1], len(apps), len(applies)))
            continue
        ok_edges = set()
        for c in apps:
            ok_edges |= A.call_outcome(f, c, uses).ok
        if not ok_edges:
            rep.unresolved_instance('R02a', f, 'append outcome', 'Ok edge of the append not recognised')
            continue
        starts = [t for (_, t) in some]
        R = A.reachable(f, starts, cut_edges=ok_edges)
        # applies that are reachable from the WAL-configured edge at all
        Rall = A.reachable(f, starts)
        for k, c in enumerate(applies):
            if c.bb not in Rall:
                continue  # cache-class early return: exempt by design
            if c.bb in R:
                rep.violation('R02a', f, 'apply-before-log', f.loc(c.line),
                              'with a WAL configured, the in-memory %s is reachable without a successful append of the %s record: '
                              'an acknowledged write can be missing from the log' % (apply_name.split('::')[-1], variant.split('::')[-1]))
            else:
                rep.holds('R02a', f, 'log-before-apply#%d' % k, 'apply only after Ok append of ' + variant.split('::')[-1])
    # TensorWal::append
    f = rep.require_fn('R02a', cr, TW + 'append')
    if f is not None:
        uses = A.Uses(f)
        for callee in ('write_entry_no_sync', 'maybe_sync'):
            cs = A.calls_to(f, TW + callee)
            ok = set()
            passthrough = set()
            for c in cs:
                o = A.call_outcome(f, c, uses)
                ok |= o.ok
                if not o.ok and o.returned:
                    passthrough.add(c.bb)   # `self.maybe_sync()` as the tail expression: its Result is append's Result
            rets = lib.success_return_reachable(f, [0], cut_edges=ok, cut_blocks=passthrough) if (ok or passthrough) else ['?']
            if not cs or rets:
                rep.violation('R02a', f, callee, f.loc(),
                              'TensorWal::append can return Ok without a successful %s (calls: %d)' % (callee, len(cs)))
            else:
                rep.holds('R02a', f, callee, 'must-pass on every success path')
    # maybe_sync / sync / fsync : flush then sync_all
    for fname, need_switch in (('maybe_sync', True), ('fsync', False), ('sync', False), ('append_batch', False)):
        f = rep.require_fn('R02a', cr, TW + fname)
        if f is None:
            continue
        uses, defs = A.Uses(f), A.Defs(f)
        flush = A.calls_to(f, ('re', r'Write>::flush$|Write::flush$'))
        syncs = A.calls_to(f, ('re', r'fs::File::sync_all$|fs::File::sync_data$'))
        if not flush or not syncs:
            rep.violation('R02a', f, 'flush+sync_all', f.loc(), '%s no longer calls flush (%d) and sync_all (%d)' % (fname, len(flush), len(syncs)))
            continue
        fl_ok = set()
        for c in flush:
            fl_ok |= A.call_outcome(f, c, uses).ok
        sy_ok = set()
        for c in syncs:
            sy_ok |= A.call_outcome(f, c, uses).ok
        R = A.reachable(f, [0], cut_edges=fl_ok)
        bad = [c for c in syncs if c.bb in R]
        if bad:
            rep.violation('R02a', f, 'sync-before-flush', f.loc(bad[0].line), 'sync_all is reachable without a successful flush of the buffered writer')
        else:
            rep.holds('R02a', f, 'flush→sync_all', 'sync_all only after Ok flush')
        if need_switch:
            enum = cr.adts.get('tensor_store::wal::SyncMode')
            imm = [v['d'] for v in enum['variants'] if v['n'] == 'Immediate'] if enum else []
            tgt = None
            for i, b in enumerate(f.bbs):
                for st in b['s']:
                    if st[1][0] == 'disc' and any(x.endswith('WalConfig.sync_mode') for x in A.place_fields(st[1][1])):
                        t = b['t']
                        if t[0] == 'sw' and imm:
                            tgt = dict(t[2]).get(imm[0], t[3])
            if tgt is None:
                rep.violation('R02a', f, 'Immediate-arm', f.loc(), 'anchor-missing: no switch on WalConfig.sync_mode with an Immediate arm')
            else:
                rets = lib.success_return_reachable(f, [tgt], cut_edges=sy_ok, cp=True)
                if rets:
                    rep.violation('R02a', f, 'Immediate-arm', f.loc(),
                                  'SyncMode::Immediate can return Ok without a successful sync_all (return bb%s)' % rets)
                else:
                    rep.holds('R02a', f, 'Immediate arm', 'every success path passes Ok sync_all')
        elif fname in ('fsync', 'append_batch'):
            rets = lib.success_return_reachable(f, [0], cut_edges=sy_ok)
            if rets:
                rep.violation('R02a', f, 'ok-without-sync', f.loc(), '%s can return Ok without a successful sync_all' % fname)
            else:
                rep.holds('R02a', f, 'sync_all must-pass', '')


def r02c(ctx, rep, cr):
    rep.rule('R02c', 'SlabRouter::checkpoint: the Checkpoint marker append is reachable only through the Ok-edge of save_to_file, and '
                     'truncate only through the Ok-edge of that append; WalRecovery::from_entries\' Checkpoint arm clears the '
                     'accumulators the other arms fill')
    f = rep.require_fn('R02c', cr, SR + 'checkpoint')
    if f is not None:
        defs, uses = A.Defs(f), A.Uses(f)
        save = A.calls_to(f, ('re', r'SlabRouter::save_to_file$'))
        app = calls_with_entry(f, defs, TW + 'append', 'tensor_store::wal::WalEntry::Checkpoint')
        trunc = A.calls_to(f, TW + 'truncate')
        if not save or not app or not trunc:
            rep.violation('R02c', f, 'shape', f.loc(), 'anchor-missing: checkpoint no longer calls save_to_file (%d) / append(Checkpoint) (%d) / truncate (%d)' % (len(save), len(app), len(trunc)))
        else:
            s_ok = set().union(*[A.call_outcome(f, c, uses).ok for c in save])
            a_ok = set().union(*[A.call_outcome(f, c, uses).ok for c in app])
            R1 = A.reachable(f, [0], cut_edges=s_ok)
            R2 = A.reachable(f, [0], cut_edges=a_ok)
            if any(c.bb in R1 for c in app + trunc):
                rep.violation('R02c', f, 'marker-before-snapshot', f.loc(app[0].line), 'the Checkpoint marker / truncate is reachable without a successfully saved snapshot')
            else:
                rep.holds('R02c', f, 'snapshot→marker', 'marker only after Ok save_to_file')
            if any(c.bb in R2 for c in trunc):
                rep.violation('R02c', f, 'truncate-before-marker', f.loc(trunc[0].line), 'WAL truncate is reachable without a successfully logged Checkpoint marker')
            else:
                rep.holds('R02c', f, 'marker→truncate', 'truncate only after Ok marker append')
    g = rep.require_fn('R02c', cr, 'tensor_store::wal::WalRecovery::from_entries')
    if g is not None:
        enum = cr.adts.get('tensor_store::wal::WalEntry')
        cp = [v['d'] for v in enum['variants'] if v['n'] == 'Checkpoint'] if enum else []
        ds = lib.enum_dispatches(g, 'tensor_store::wal::WalEntry')
        sw = ds[0] if ds else None
        if sw is None or not cp:
            rep.violation('R02c', g, 'dispatch', g.loc(), 'anchor-missing: no WalEntry dispatch in WalRecovery::from_entries')
            return
        dom = A.dominators(g)
        heads = {c.bb for c in A.calls_to(g, ('re', r'Iterator>::next$')) if c.bb in dom[sw[0]]}
        tgt = dict(sw[1][2]).get(cp[0], sw[1][3])

        def arm_effects(tb):
            R = A.reachable(g, [tb], cut_blocks=heads | {sw[0]})
            grow, clear = set(), set()
            defs = A.Defs(g)
            for b in R:
                t = g.bbs[b]['t']
                if t[0] != 'call':
                    continue
                m = re.search(r'::(push|extend|insert|clear)$', t[1])
                if not m or not t[3] or t[3][0][0] == 'k':
                    continue
                fs, root = A.origin_fields(g, t[3][0][1][0], defs)
                fs = A.place_fields(t[3][0][1]) + fs
                name = fs[-1].split('.')[-1] if fs else 'local:%s' % _dbg(g, root)
                (clear if m.group(1) == 'clear' else grow).add(name)
            return grow, clear

        filled = set()
        for v, tb in list(sw[1][2]) + [('otherwise', sw[1][3])]:
            if tb == tgt:
                continue
            gset, _ = arm_effects(tb)
            filled |= gset
        _, cleared = arm_effects(tgt)
        # accumulators that hold replayable operations
        need = {x for x in filled if x in ('operations', 'committed_ops') or x.startswith('local:')}
        missing = sorted(need - cleared)
        if missing:
            rep.violation('R02c', g, 'checkpoint-arm-clears', g.loc(),
                          'the Checkpoint arm does not clear %s, which other arms fill: operations from before the checkpoint are replayed on top of the snapshot' % missing)
        else:
            rep.holds('R02c', g, 'checkpoint arm', 'clears %s' % sorted(cleared))


def _dbg(f, local):
    for n, p in f.d['names'].items():
        if p[0] == local and not p[1]:
            return n
    return '_%s' % local


def r02d(ctx, rep, cr):
    rep.rule('R02d', 'files the WAL writer creates on the acknowledged-write path (rotated_path(n) via rotate) must be opened by replay, '
                     'or rotation must be unreachable from append')
    cg = ctx.callgraph(['tensor_store'])
    rot = TW + 'rotate'
    if rot not in cg.fns:
        rep.notes.append('R02d: TensorWal::rotate no longer exists; rule vacuous by removal')
        rep.holds('R02d', 'tensor_store::wal::TensorWal', 'no rotation', '')
        return
    rep.analysed(rot)
    p = cg.path(TW + 'append', lambda n: n == rot)
    replay_reach = cg.reach([TW + 'replay_with_validation', TW + 'replay', 'tensor_store::wal::WalRecovery::from_wal'])
    reads_rotated = (TW + 'rotated_path') in replay_reach
    if p and not reads_rotated:
        rep.violation('R02d', p[-2], 'rotate', cg.fns[p[-2]].loc(),
                      'append reaches rotate (%s), which renames the live log to <wal>.1 and starts an empty file, while replay opens only '
                      'the live path: every acknowledged record in a rotated file is lost on recovery' % ' → '.join(lib.short(x) for x in p))
    else:
        rep.holds('R02d', rot, 'rotation', 'replay reads rotated files' if reads_rotated else 'rotate unreachable from append')


def run(ctx, rep):
    cr = ctx.crate('tensor_store')
    r02a(ctx, rep, cr)
    wal_rules.r02b(ctx, rep, ['TensorWal'])
    r02c(ctx, rep, cr)
    r02d(ctx, rep, cr)
    wal_rules.r02e(ctx, rep, ['TensorWal'])
    wal_rules.r02f(ctx, rep, ['TensorWal'])
    wal_rules.r02g(ctx, rep, ['TensorWal'])
    wal_rules.r02h(ctx, rep, ['TensorWal'])
    wal_rules.r02i(ctx, rep, ['TensorWal'])
    wal_rules.r02j(ctx, rep, ['TensorWal'])
    wal_rules.r02k(ctx, rep, ['TensorWal'])
    if ctx.tier == 'thorough':
        wal_rules.r02b(ctx, rep, ['RaftWal', 'TxWal'])
        wal_rules.r02e(ctx, rep, ['RaftWal', 'TxWal'])
