//! E4 — compile-fail witnesses (DESIGN §1). Each witness is paired with a compiling twin that
//! differs only by the offending line, so a witness whose path is merely wrong cannot pass.
//! Run with `cargo +nightly test --doc` (error codes are only honoured on nightly).
//!
//! The MIR rules enumerate every write site *inside* the workspace; these witnesses show that
//! code *outside* the defining module/crate cannot add one, because the state is not nameable.

/// C10 / C01 (R01a): Raft's persistent state (term, vote, log) cannot be named outside `raft`.
///
/// ```compile_fail,E0603
/// use tensor_chain::raft::PersistentState;
/// fn main() {}
/// ```
///
/// Twin: the same path shape with a public item compiles.
/// ```
/// use tensor_chain::raft::RaftNode;
/// fn main() { let _ = std::mem::size_of::<RaftNode>(); }
/// ```
pub struct RaftPersistentStateIsPrivate;

/// C12 (R12a/R12b): the lock table and the transaction→keys index of `LockManager` are private
/// fields: no code outside `distributed_tx` can read or write them without the manager's methods.
///
/// ```compile_fail,E0616
/// let lm = tensor_chain::distributed_tx::LockManager::new();
/// let _ = lm.locks.read();
/// ```
///
/// ```compile_fail,E0616
/// let lm = tensor_chain::distributed_tx::LockManager::new();
/// let _ = lm.tx_locks.read();
/// ```
///
/// Twin: the public accessor on the same value compiles.
/// ```
/// let lm = tensor_chain::distributed_tx::LockManager::new();
/// let _ = lm.active_lock_count();
/// ```
pub struct LockTablesArePrivate;

/// C10 (R10c): the Raft WAL cannot be written except through `append`: its writer is private.
///
/// ```compile_fail,E0616
/// let dir = std::env::temp_dir().join("nvwitness_raft_wal");
/// let wal = tensor_chain::raft_wal::RaftWal::open(&dir).unwrap();
/// let _ = &wal.writer;
/// ```
///
/// Twin:
/// ```
/// let dir = std::env::temp_dir().join("nvwitness_raft_wal_twin");
/// let wal = tensor_chain::raft_wal::RaftWal::open(&dir).unwrap();
/// let _ = wal.entry_count();
/// let _ = std::fs::remove_file(&dir);
/// ```
pub struct RaftWalWriterIsPrivate;

/// C11 (R11a): the shards of `MetadataSlab` are private; every access goes through the
/// one-shard-lock methods the rule checks.
///
/// ```compile_fail,E0616
/// let slab = tensor_store::MetadataSlab::new();
/// let _ = &slab.shards;
/// ```
///
/// Twin:
/// ```
/// let slab = tensor_store::MetadataSlab::new();
/// let _ = slab.get("k");
/// ```
pub struct MetadataShardsArePrivate;
