//! Positive controls for the analyses in /verif/rules/analyses.py.
//! Every function below contains exactly the defect its name says; `selftest.py` extracts this crate
//! with the same driver and asserts that each analysis fires on the `bad_*` function and is silent on
//! its `good_*` twin. If an analysis stops seeing a defect here, rules that rely on it pass vacuously.
#![allow(dead_code, clippy::all)]
use std::collections::HashMap;
use std::sync::{Mutex, RwLock};

pub struct Wal;
impl Wal {
    pub fn append(&mut self, _rec: u64) -> Result<(), String> { Ok(()) }
}

pub struct State { pub term: u64, pub vote: Option<String> }

pub struct Node {
    pub state: RwLock<State>,
    pub wal: Mutex<Wal>,
    pub a: Mutex<u64>,
    pub b: Mutex<u64>,
    pub table: RwLock<HashMap<String, u64>>,
    pub depth: usize,
}

impl Node {
    fn persist(&self, term: u64) -> Result<(), String> { self.wal.lock().unwrap().append(term) }

    // A1/A2: write reachable without a successful persist
    pub fn bad_write_before_persist(&self, term: u64) -> Result<(), String> {
        let mut st = self.state.write().unwrap();
        st.term = term;
        self.persist(term)?;
        Ok(())
    }
    pub fn good_persist_then_write(&self, term: u64) -> Result<(), String> {
        let mut st = self.state.write().unwrap();
        if let Err(e) = self.persist(term) { return Err(e); }
        st.term = term;
        Ok(())
    }

    // A3: map operation outside the guard's live range
    pub fn bad_guard_dropped_early(&self, k: &str) -> u64 {
        let g = self.wal.lock().unwrap();
        drop(g);
        self.apply(k)
    }
    pub fn good_guard_held(&self, k: &str) -> u64 {
        let _g = self.wal.lock().unwrap();
        self.apply(k)
    }
    fn apply(&self, k: &str) -> u64 { self.table.read().unwrap().get(k).copied().unwrap_or(0) }

    // A3 + A7: lock-order cycle a -> b and b -> a
    pub fn lock_ab(&self) { let _x = self.a.lock().unwrap(); let _y = self.b.lock().unwrap(); }
    pub fn bad_lock_ba(&self) { let _y = self.b.lock().unwrap(); self.takes_a(); }
    fn takes_a(&self) { let _x = self.a.lock().unwrap(); }
}

pub struct Store { m: RwLock<HashMap<String, u64>> }
impl Store {
    pub fn get(&self, k: &str) -> Result<u64, String> { self.m.read().unwrap().get(k).copied().ok_or_else(|| "nf".to_string()) }
    pub fn put(&self, k: &str, v: u64) -> Result<(), String> { self.m.write().unwrap().insert(k.to_string(), v); Ok(()) }
}

pub struct Engine { pub store: Store, pub stripe: Mutex<()> }
impl Engine {
    // A4: read-modify-write of one key with no lock
    pub fn bad_rmw_unlocked(&self, k: &str) -> Result<(), String> {
        let v = self.store.get(k).unwrap_or(0);
        self.store.put(k, v + 1)
    }
    pub fn good_rmw_locked(&self, k: &str) -> Result<(), String> {
        let _g = self.stripe.lock().unwrap();
        let v = self.store.get(k).unwrap_or(0);
        self.store.put(k, v + 1)
    }
}

// A9: allocation sized by a wire value without / with a must-pass limit test
pub fn bad_unbounded_alloc(buf: [u8; 4]) -> Vec<u8> {
    let len = u32::from_be_bytes(buf) as usize;
    vec![0u8; len]
}
pub fn good_bounded_alloc(buf: [u8; 4], max: usize) -> Result<Vec<u8>, String> {
    let len = u32::from_be_bytes(buf) as usize;
    if len > max { return Err("too large".into()); }
    Ok(vec![0u8; len])
}

// A7: recursion with and without a depth guard
pub struct P { pub depth: usize }
impl P {
    pub fn bad_recurse(&mut self, n: u32) -> Result<u32, String> { if n == 0 { Ok(0) } else { self.bad_helper(n) } }
    fn bad_helper(&mut self, n: u32) -> Result<u32, String> { self.bad_recurse(n - 1) }
    pub fn good_recurse(&mut self, n: u32) -> Result<u32, String> {
        self.depth += 1;
        if self.depth > 64 { return Err("too deep".into()); }
        let r = if n == 0 { Ok(0) } else { self.good_helper(n) };
        self.depth -= 1;
        r
    }
    fn good_helper(&mut self, n: u32) -> Result<u32, String> { self.good_recurse(n - 1) }
}

// injective-arithmetic table
pub fn bad_delta(ids: &[u64]) -> Vec<u64> { let mut o = Vec::new(); for w in ids.windows(2) { o.push(w[1].saturating_sub(w[0])); } o }
pub fn good_delta(ids: &[u64]) -> Vec<u64> { let mut o = Vec::new(); for w in ids.windows(2) { o.push(w[1].wrapping_sub(w[0])); } o }

// A5: flag idiom must not create an infeasible path
pub enum Mode { Immediate, Manual }
pub fn good_flag_idiom(m: &Mode, w: &mut Wal) -> Result<(), String> {
    let should = match m { Mode::Immediate => true, Mode::Manual => false };
    if should { w.append(1)?; }
    Ok(())
}

// bounds-check discharge: a lookahead index needs its own test
pub fn bad_index_lookahead(bytes: &[u8]) -> usize {
    let mut i = 0; let mut n = 0;
    while i < bytes.len() { if bytes[i] == b'/' && bytes[i + 1] == b'*' { n += 1; i += 2; } else { i += 1; } }
    n
}
pub fn good_index_guarded(bytes: &[u8]) -> usize {
    let mut i = 0; let mut n = 0;
    while i < bytes.len() { if bytes[i] == b'/' && i + 1 < bytes.len() && bytes[i + 1] == b'*' { n += 1; i += 2; } else { i += 1; } }
    n
}

// range-index discharge: a decoder must test the length before slicing
pub fn bad_decode_flags(p: &[u8]) -> Result<(u8, &[u8]), String> { let data = &p[1..]; Ok((p[0], data)) }
pub fn good_decode_flags(p: &[u8]) -> Result<(u8, &[u8]), String> {
    if p.is_empty() { return Err("empty".into()); }
    let flags = p[0]; let data = &p[1..]; Ok((flags, data))
}

// merge-shaped comparison: only correct on sorted inputs
pub fn bad_merge_unsorted(a: &[u64], b: &[u64]) -> Vec<u64> {
    let mut out = Vec::new(); let (mut i, mut j) = (0, 0);
    while i < a.len() && j < b.len() {
        match a[i].cmp(&b[j]) { std::cmp::Ordering::Less => i += 1, std::cmp::Ordering::Greater => j += 1,
            std::cmp::Ordering::Equal => { out.push(a[i]); i += 1; j += 1; } }
    }
    out
}
pub fn good_merge_sorted(a: &[u64], b: &[u64]) -> Vec<u64> {
    let mut a = a.to_vec(); let mut b = b.to_vec(); a.sort_unstable(); b.sort_unstable();
    let mut out = Vec::new(); let (mut i, mut j) = (0, 0);
    while i < a.len() && j < b.len() {
        match a[i].cmp(&b[j]) { std::cmp::Ordering::Less => i += 1, std::cmp::Ordering::Greater => j += 1,
            std::cmp::Ordering::Equal => { out.push(a[i]); i += 1; j += 1; } }
    }
    out
}

// order-assuming search on an unsorted list
pub fn bad_bisect(ids: &mut Vec<u64>, id: u64) { if let Ok(p) = ids.binary_search(&id) { ids.remove(p); } }
pub fn good_bisect(ids: &mut Vec<u64>, id: u64) { ids.sort_unstable(); if let Ok(p) = ids.binary_search(&id) { ids.remove(p); } }
