use std::sync::Arc;
use tensor_store::{TensorStore, TensorData, TensorValue, ScalarValue};

#[test]
fn c11_embedding_key_mixture() {
    let s = Arc::new(TensorStore::new());
    let rounds = 100_000usize;
    let b = Arc::new(std::sync::Barrier::new(2));
    let hs: Vec<_> = (0..2i64).map(|t| { let s = s.clone(); let b = b.clone(); std::thread::spawn(move || {
        for r in 0..rounds {
            let mut d = TensorData::new();
            d.set("who", TensorValue::Scalar(ScalarValue::Int(t)));
            d.set("_embedding", TensorValue::Vector(vec![t as f32; 384]));
            b.wait(); s.put(format!("emb:k{r}"), d).unwrap();
        } }) }).collect();
    for h in hs { h.join().unwrap(); }
    let mut mixed = 0;
    for r in 0..rounds {
        let d = s.get(&format!("emb:k{r}")).unwrap();
        let who = match d.get("who") { Some(TensorValue::Scalar(ScalarValue::Int(v))) => *v, _ => -1 };
        let e0 = match d.get("_embedding") { Some(TensorValue::Vector(v)) => v[0] as i64, _ => -2 };
        if who != e0 { mixed += 1; if mixed <= 3 { println!("emb:k{r}: field 'who' from writer {who}, embedding from writer {e0}"); } }
    }
    println!("{mixed}/{rounds} keys hold a mixture of two writes at quiescence");
    assert_eq!(mixed, 0);
}
