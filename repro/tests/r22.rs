use tensor_chain::distributed_tx::{DistributedTxCoordinator, DistributedTxConfig, TxPhase};
use tensor_chain::consensus::{ConsensusManager, ConsensusConfig};
use tensor_chain::tx_wal::{TxWal, TxWalEntry, PrepareVoteKind, TxRecoveryState};

fn coord(p: &std::path::Path) -> DistributedTxCoordinator {
    DistributedTxCoordinator::new(ConsensusManager::new(ConsensusConfig::default()), DistributedTxConfig::default()).with_wal(TxWal::open(p).unwrap())
}

fn log_up_to_committing(p: &std::path::Path) {
    // what commit() has written when the process dies between its two log records
    let mut w = TxWal::open(p).unwrap();
    w.append(&TxWalEntry::TxBegin { tx_id: 7, participants: vec![0, 1] }).unwrap();
    w.append(&TxWalEntry::PrepareVote { tx_id: 7, shard: 0, vote: PrepareVoteKind::Yes { lock_handle: 1 } }).unwrap();
    w.append(&TxWalEntry::PrepareVote { tx_id: 7, shard: 1, vote: PrepareVoteKind::Yes { lock_handle: 2 } }).unwrap();
    w.append(&TxWalEntry::PhaseChange { tx_id: 7, from: TxPhase::Preparing, to: TxPhase::Prepared }).unwrap();
    w.append(&TxWalEntry::PhaseChange { tx_id: 7, from: TxPhase::Prepared, to: TxPhase::Committing }).unwrap();
}

// R03c: abort() has no phase test — a logged commit decision is reversed after a restart.
#[test]
fn c03_c13_abort_reverses_logged_commit_decision() {
    let dir = tempfile::tempdir().unwrap();
    let p = dir.path().join("tx.wal");
    log_up_to_committing(&p);
    let c = coord(&p);
    let st = c.recover_from_wal().unwrap();
    println!("recovered {st:?}; decisions {:?}", c.get_pending_decisions());
    assert_eq!(c.get_pending_decisions(), vec![(7, TxPhase::Committing)]);
    let r = c.abort(7, "operator");
    println!("abort of a Committing transaction: {r:?}");
    drop(c);
    let rs = TxRecoveryState::from_wal(&TxWal::open(&p).unwrap()).unwrap();
    println!("log now says: committing={} aborting={} prepared={}", rs.committing_txs.len(), rs.aborting_txs.len(), rs.prepared_txs.len());
    assert!(r.is_err(), "abort accepted for a transaction whose commit decision is in the log");
}

// R03c: force_resolve(commit=false) likewise.
#[test]
fn c03_c13_force_resolve_abort_reverses_logged_commit_decision() {
    let dir = tempfile::tempdir().unwrap();
    let p = dir.path().join("tx.wal");
    log_up_to_committing(&p);
    let c = coord(&p);
    c.recover_from_wal().unwrap();
    let before = c.stats().snapshot().aborted;
    let r = c.force_resolve(7, false);
    let after = c.stats().snapshot().aborted;
    println!("force_resolve(abort) of a Committing transaction: {r:?}; aborted {before}->{after}");
    assert!(r.is_err() && before == after, "abort decided for a transaction whose commit decision is in the log");
}
