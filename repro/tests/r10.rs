use std::sync::Arc;
use tensor_chain::{TensorChain, Transaction};
use tensor_store::TensorStore;

#[test]
fn c16_concurrent_commits_lose_committed_writes() {
    let mut bad = 0; let mut rounds = 0;
    for round in 0..40 {
        let store = TensorStore::new();
        let chain = Arc::new(TensorChain::new(store.clone(), "n1"));
        chain.initialize().unwrap();
        let b = Arc::new(std::sync::Barrier::new(4));
        let hs: Vec<_> = (0..4).map(|t| { let chain = chain.clone(); let b = b.clone(); std::thread::spawn(move || {
            let mut committed = vec![];
            b.wait();
            for i in 0..10 {
                let key = format!("r{round}-t{t}-k{i}");
                let ws = chain.begin().unwrap();
                ws.add_operation(Transaction::Put { key: key.clone(), data: vec![t as u8, i as u8] }).unwrap();
                if chain.commit(&ws).is_ok() { committed.push(key); }
            }
            committed
        })}).collect();
        let committed: Vec<String> = hs.into_iter().flat_map(|h| h.join().unwrap()).collect();
        let missing: Vec<_> = committed.iter().filter(|k| !store.exists(k)).collect();
        let verify = chain.verify();
        rounds += 1;
        if !missing.is_empty() || verify.is_err() || chain.height() as usize != committed.len() {
            bad += 1;
            if bad <= 3 { println!("round {round}: committed {} height {} missing-from-store {} verify {:?}", committed.len(), chain.height(), missing.len(), verify.is_ok()); }
        }
    }
    println!("{bad}/{rounds} rounds inconsistent");
    assert_eq!(bad, 0);
}
