use std::sync::Arc;
use std::time::Duration;
use graph_engine::GraphEngine;
use tensor_store::{TensorStore, TensorValue, ScalarValue};
use tensor_vault::{Vault, VaultConfig, RateLimitConfig};

fn vault(store: TensorStore) -> Vault {
    let mut cfg = VaultConfig::default();
    cfg.rate_limit = Some(RateLimitConfig::default());
    Vault::new(b"test_password", Arc::new(GraphEngine::new()), store, cfg).unwrap()
}

// R14a: emergency_access performs no authorisation check on (requester, key).
#[test]
fn c14_emergency_access_reads_without_any_grant() {
    let v = vault(TensorStore::new());
    v.set(Vault::ROOT, "prod/db_password", "s3cr3t").unwrap();
    // mallory has no grant, is in no group
    let plain = v.get("user:mallory", "prod/db_password");
    println!("get: {plain:?}");
    assert!(plain.is_err());
    let r = v.emergency_access("user:mallory", "prod/db_password", "because", Duration::from_secs(60));
    println!("emergency_access by an identity with no grant: {r:?}");
    assert!(r.is_err(), "a requester with no grant read the secret");
}

// R14c: the secret's name is stored in clear in the access-control node.
#[test]
fn c14_secret_name_readable_at_rest() {
    let store = TensorStore::new();
    let v = vault(store.clone());
    v.set(Vault::ROOT, "prod/db_password", "s3cr3t").unwrap();
    let mut hits = Vec::new();
    for k in store.scan("") {
        if k.contains("db_password") { hits.push(format!("key {k}")); }
        if let Ok(t) = store.get(&k) {
            for (f, val) in t.iter() {
                if let TensorValue::Scalar(ScalarValue::String(s)) = val {
                    if s.contains("db_password") { hits.push(format!("{k}.{f} = {s:?}")); }
                }
            }
        }
    }
    println!("places where the secret name is readable in the store: {hits:?}");
    assert!(hits.is_empty(), "secret name readable at rest");
}
