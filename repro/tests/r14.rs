use std::sync::Arc;
use tensor_chain::raft::{RaftNode, RaftConfig};
use tensor_chain::network::MemoryTransport;
use tensor_chain::codebook::GlobalCodebookSnapshot;
use tensor_chain::block::{Block, BlockHeader};
use tensor_store::{TensorStore, TensorData, TensorValue, ScalarValue, WalConfig};

fn blk(h: u64) -> Block { Block::new(BlockHeader::new(h, [0u8;32],[0u8;32],[0u8;32],"p".to_string()), vec![]) }

#[test]
fn c10_leader_entry_not_persisted() {
    let dir = tempfile::tempdir().unwrap();
    let p = dir.path().join("raft.wal");
    {
        let t = Arc::new(MemoryTransport::new("A".to_string()));
        let n = RaftNode::with_wal("A".to_string(), vec!["B".into(), "C".into()], t, RaftConfig::default(), &p).unwrap();
        n.start_election();
        n.become_leader();
        n.quorum_tracker().mark_reachable(&"B".to_string());
        n.quorum_tracker().mark_reachable(&"C".to_string());
        let i1 = n.propose(blk(1)).unwrap();
        let i2 = n.propose_codebook_replace(GlobalCodebookSnapshot::new(4, vec![], 1)).unwrap();
        println!("leader accepted indexes {i1} and {i2}; last_log_index = {}", n.last_log_index());
        assert_eq!(n.last_log_index(), 2);
    }
    let t = Arc::new(MemoryTransport::new("A".to_string()));
    let n = RaftNode::with_wal("A".to_string(), vec!["B".into(), "C".into()], t, RaftConfig::default(), &p).unwrap();
    println!("after restart last_log_index = {}", n.last_log_index());
    assert_eq!(n.last_log_index(), 2, "entry accepted as leader is gone after restart");
}

#[test]
fn c02_rotation_loses_acknowledged_writes() {
    let dir = tempfile::tempdir().unwrap();
    let p = dir.path().join("w.wal");
    let cfg = WalConfig::for_testing(); // 1 KB limit, auto-rotate, immediate sync
    let n = 40;
    {
        let s = TensorStore::open_durable(&p, cfg.clone()).unwrap();
        for i in 0..n { let mut t = TensorData::new(); t.set("v", TensorValue::Scalar(ScalarValue::Int(i))); s.put_durable(format!("k{i}"), t).unwrap(); }
    }
    let s = TensorStore::recover(&p, &cfg, None).unwrap();
    let present = (0..n).filter(|i| s.exists(&format!("k{i}"))).count();
    println!("{present}/{n} acknowledged writes recovered");
    assert_eq!(present as i64, n);
}

#[test]
fn c15_few_kb_of_parens_default_thread_stack() {
    let n = 3000; // 6 KB of input
    let src = format!("SELECT {}1{} FROM t", "(".repeat(n), ")".repeat(n));
    let r = std::thread::spawn(move || neumann_parser::parse(&src).is_ok()).join();
    println!("{r:?}");
}
