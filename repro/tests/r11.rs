use tensor_chain::raft_wal::{RaftWal, RaftWalEntry, RaftRecoveryState};
use tensor_chain::tx_wal::{TxWal, TxWalEntry, TxRecoveryState, TxOutcome, PrepareVoteKind};
use tensor_chain::distributed_tx::TxPhase;

fn tear(path: &std::path::Path, n: u64) {
    let len = std::fs::metadata(path).unwrap().len();
    let f = std::fs::OpenOptions::new().write(true).open(path).unwrap();
    f.set_len(len - n).unwrap();
}

#[test]
fn c10_vote_lost_after_torn_tail() {
    let dir = tempfile::tempdir().unwrap();
    let p = dir.path().join("raft.wal");
    {
        let mut w = RaftWal::open(&p).unwrap();
        w.append(&RaftWalEntry::TermAndVote { term: 1, voted_for: None }).unwrap();
        w.append(&RaftWalEntry::TermAndVote { term: 2, voted_for: None }).unwrap();
    }
    tear(&p, 2); // crash mid-write of the term-2 record
    {
        let mut w = RaftWal::open(&p).unwrap();
        let st = RaftRecoveryState::from_wal(&w).unwrap();
        assert_eq!(st.current_term, 1);
        // node votes for X in term 3: fsynced, then answered
        w.append(&RaftWalEntry::TermAndVote { term: 3, voted_for: Some("X".into()) }).unwrap();
    }
    let w = RaftWal::open(&p).unwrap();
    let st = RaftRecoveryState::from_wal(&w);
    println!("after second restart: {st:?}");
    let st = st.expect("recovery failed outright");
    assert_eq!((st.current_term, st.voted_for.as_deref()), (3, Some("X")), "acknowledged vote forgotten");
}

#[test]
fn c13_commit_lost_after_torn_tail() {
    let dir = tempfile::tempdir().unwrap();
    let p = dir.path().join("tx.wal");
    {
        let mut w = TxWal::open(&p).unwrap();
        w.append(&TxWalEntry::TxBegin { tx_id: 1, participants: vec![0,1] }).unwrap();
        w.append(&TxWalEntry::TxBegin { tx_id: 2, participants: vec![0,1] }).unwrap();
    }
    tear(&p, 2);
    {
        let mut w = TxWal::open(&p).unwrap();
        let _ = TxRecoveryState::from_wal(&w).unwrap();
        w.append(&TxWalEntry::TxBegin { tx_id: 3, participants: vec![0] }).unwrap();
        w.append(&TxWalEntry::PrepareVote { tx_id: 3, shard: 0, vote: PrepareVoteKind::Yes { lock_handle: 9 } }).unwrap();
        w.append(&TxWalEntry::PhaseChange { tx_id: 3, from: TxPhase::Preparing, to: TxPhase::Prepared }).unwrap();
    }
    let w = TxWal::open(&p).unwrap();
    let st = TxRecoveryState::from_wal(&w);
    println!("after second restart: {:?}", st.as_ref().map(|s| s.prepared_txs.len()));
    let st = st.expect("recovery failed outright");
    assert_eq!(st.prepared_txs.len(), 1, "prepared transaction 3 forgotten");
    let _ = TxOutcome::Committed;
}
