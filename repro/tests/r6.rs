use std::sync::Arc;
use std::time::Duration;
use graph_engine::GraphEngine;
use tensor_store::TensorStore;
use tensor_vault::{Vault, VaultConfig, Permission};

#[test]
fn c14_expired_grant_still_rotates() {
    let store = TensorStore::new();
    let graph = Arc::new(GraphEngine::new());
    let vault = Vault::new(b"test_password", graph, store, VaultConfig::default()).unwrap();
    vault.set(Vault::ROOT, "secret", "v1").unwrap();
    vault.grant_with_ttl(Vault::ROOT, "user:alice", "secret", Permission::Admin, Duration::from_secs(0)).unwrap();
    std::thread::sleep(Duration::from_millis(20));
    // grant has expired; no get/list has been called since
    let r = vault.rotate("user:alice", "secret", "attacker-value");
    println!("rotate with expired grant: {r:?}");
    let d = vault.delete("user:alice", "secret");
    println!("delete with expired grant: {d:?}");
    assert!(r.is_err() && d.is_err(), "expired grant still confers access");
}
