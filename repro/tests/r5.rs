use std::sync::Arc;
use std::collections::HashMap;
use graph_engine::{GraphEngine, Direction};

#[test]
fn c05_hub_concurrent_edges() {
    let g = Arc::new(GraphEngine::new());
    let hub = g.create_node("hub", HashMap::new()).unwrap();
    let mut leaves = vec![];
    for _ in 0..8 { leaves.push(g.create_node("leaf", HashMap::new()).unwrap()); }
    let mut hs = vec![];
    for t in 0..8usize {
        let g = g.clone(); let leaf = leaves[t];
        hs.push(std::thread::spawn(move || {
            let mut ids = vec![];
            for _ in 0..200 { ids.push(g.create_edge(hub, leaf, "e", HashMap::new(), true).unwrap()); }
            ids
        }));
    }
    let mut all = vec![];
    for h in hs { all.extend(h.join().unwrap()); }
    let listed = g.edges_of(hub, Direction::Outgoing).unwrap();
    println!("created {} edges, hub lists {}", all.len(), listed.len());
    assert_eq!(listed.len(), all.len(), "hub adjacency lost entries");
}

#[test]
fn c05_delete_node_parallel_edges_single_thread() {
    // one API call, no user threads: hub with >=100 edges, several to the same neighbour
    let g = GraphEngine::new();
    let hub = g.create_node("hub", HashMap::new()).unwrap();
    let y = g.create_node("y", HashMap::new()).unwrap();
    for _ in 0..150 { g.create_edge(hub, y, "e", HashMap::new(), true).unwrap(); }
    g.delete_node(hub).unwrap();
    let left = g.edges_of(y, Direction::Incoming).map(|v| v.len()).unwrap_or(0);
    let raw = g.in_degree(y).unwrap_or(0);
    println!("y incoming after hub deletion: edges_of={left} in_degree={raw}");
    assert_eq!(raw, 0, "dangling adjacency entries on y after delete_node(hub)");
}
