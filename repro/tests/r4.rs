#[test]
fn c15_deep_nesting() {
    let n = 20000;
    let src = format!("SELECT {}1{} FROM t", "(".repeat(n), ")".repeat(n));
    let r = std::thread::Builder::new().stack_size(8 * 1024 * 1024).spawn(move || {
        neumann_parser::parse(&src).is_ok()
    }).unwrap().join();
    println!("{r:?}");
}
