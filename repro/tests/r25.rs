use relational_engine::{RelationalEngine, Schema, Column, ColumnType, Value, Condition};
use std::collections::HashMap;

// R09c (sibling): tx_update / tx_delete lock the rows they change, tx_insert does not lock the row it creates.
#[test]
fn c09_uncommitted_insert_is_not_locked() {
    let eng = RelationalEngine::new();
    eng.create_table("t", Schema::new(vec![Column::new("id", ColumnType::Int)])).unwrap();
    let t1 = eng.begin_transaction();
    let t2 = eng.begin_transaction();
    let mut row = HashMap::new();
    row.insert("id".to_string(), Value::Int(7));
    eng.tx_insert(t1, "t", row).unwrap();
    // T2 deletes the row T1 has inserted but not committed
    let d = eng.tx_delete(t2, "t", Condition::Eq("id".to_string(), Value::Int(7)));
    println!("T2 deletes T1's uncommitted row: {d:?}");
    let r1 = eng.rollback(t1);
    let r2 = eng.rollback(t2);
    println!("rollback T1: {r1:?}; rollback T2: {r2:?}");
    let rows = eng.select("t", Condition::True).unwrap();
    println!("after both transactions rolled back the table holds {} row(s)", rows.len());
    assert!(d.is_err(), "a second transaction modified a row that the first had modified (inserted)");
    assert_eq!(rows.len(), 0, "a row written only by rolled-back transactions is in the table");
}
