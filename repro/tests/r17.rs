use std::sync::{Arc, atomic::{AtomicU64, Ordering}};
use tensor_chain::distributed_tx::{DistributedTxCoordinator, DistributedTxConfig, PrepareVote};
use tensor_chain::consensus::{ConsensusManager, ConsensusConfig, DeltaVector};

#[test]
fn c12_internal_lock_order_deadlock() {
    let mut cfg = DistributedTxConfig::default(); cfg.max_concurrent = 1_000_000;
    let c = Arc::new(DistributedTxCoordinator::new(ConsensusManager::new(ConsensusConfig::default()), cfg));
    let pa = Arc::new(AtomicU64::new(0)); let pb = Arc::new(AtomicU64::new(0));
    { let c = c.clone(); let pa = pa.clone(); std::thread::spawn(move || loop {
        let tx = c.begin(&"n".to_string(), &[0]).unwrap();
        let _ = c.record_vote(tx.tx_id, 0, PrepareVote::Yes { lock_handle: 1, delta: DeltaVector::zero(0) });
        let _ = c.commit(tx.tx_id);
        pa.fetch_add(1, Ordering::Relaxed);
    }); }
    { let c = c.clone(); let pb = pb.clone(); std::thread::spawn(move || loop {
        c.release_orphaned_locks(0);
        pb.fetch_add(1, Ordering::Relaxed);
    }); }
    let mut last = (0, 0); let mut stuck = 0;
    for _ in 0..60 {
        std::thread::sleep(std::time::Duration::from_millis(500));
        let now = (pa.load(Ordering::Relaxed), pb.load(Ordering::Relaxed));
        if now == last { stuck += 1; } else { stuck = 0; }
        last = now;
        if stuck >= 6 { println!("no progress for 3 s at commits={} sweeps={}: both threads blocked", now.0, now.1); std::process::exit(101); }
    }
    println!("no deadlock observed in 30 s: commits={} sweeps={}", last.0, last.1);
}
