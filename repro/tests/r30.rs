use query_router::{QueryRouter, QueryResult};
use tensor_store::TensorStore;

// C08: "every retained checkpoint can be rolled back to", "repeated checkpoint/rollback cycles".
// The checkpoint artifacts live in the blob store, which is built over the very store that rollback replaces: the image of a
// checkpoint was taken before its own artifact was written, so restoring it removes that artifact (and every newer one).
#[test]
fn c08_rollback_removes_the_checkpoint_it_restored() {
    let mut router = QueryRouter::with_shared_store(TensorStore::new());
    router.init_blob().unwrap();
    router.init_checkpoint().unwrap();
    router.execute("CREATE TABLE t (id:INT, name:TEXT)").unwrap();
    router.execute("INSERT t id=1, name='Alice'").unwrap();
    router.execute_parsed("CHECKPOINT 'cp1'").unwrap();
    router.execute("INSERT t id=2, name='Bob'").unwrap();
    router.execute_parsed("CHECKPOINT 'cp2'").unwrap();
    router.execute("INSERT t id=3, name='Carol'").unwrap();
    let before = router.execute_parsed("CHECKPOINTS").unwrap();
    println!("before: {before:?}");
    router.execute_parsed("ROLLBACK TO 'cp2'").unwrap();
    let after = router.execute_parsed("CHECKPOINTS").unwrap();
    println!("after: {after:?}");
    router.execute("INSERT t id=4, name='Dan'").unwrap();
    // the same retained checkpoint a second time
    let again = router.execute_parsed("ROLLBACK TO 'cp2'");
    println!("second rollback: {again:?}");
    assert!(again.is_ok(), "a retained checkpoint can be rolled back to only once: {again:?}");
    match router.execute("SELECT t") { Ok(QueryResult::Rows(rows)) => assert_eq!(rows.len(), 2), other => panic!("{other:?}") }
}
