use std::sync::Arc;
use tensor_chain::distributed_tx::{DistributedTxCoordinator, DistributedTxConfig, PrepareVote, TxPhase};
use tensor_chain::consensus::{ConsensusManager, ConsensusConfig, DeltaVector};
use tensor_chain::network::MemoryTransport;
use tensor_chain::tx_wal::TxWal;

fn coord(p: &std::path::Path, timeout_ms: u64) -> DistributedTxCoordinator {
    let mut cfg = DistributedTxConfig::default();
    cfg.prepare_timeout_ms = timeout_ms;
    DistributedTxCoordinator::new(ConsensusManager::new(ConsensusConfig::default()), cfg).with_wal(TxWal::open(p).unwrap())
}

// The r12 scenario through the real broadcast path (process_pending_aborts logs AbortIntent before sending).
#[tokio::test]
async fn c13_announced_abort_survives_restart() {
    let dir = tempfile::tempdir().unwrap();
    let p = dir.path().join("tx.wal");
    let tx_id;
    {
        let c = coord(&p, 30);
        let tx = c.begin(&"n1".to_string(), &[0, 1]).unwrap();
        tx_id = tx.tx_id;
        c.record_vote(tx_id, 0, PrepareVote::Yes { lock_handle: 1, delta: DeltaVector::zero(0) }).unwrap();
        let ph = c.record_vote(tx_id, 1, PrepareVote::Yes { lock_handle: 2, delta: DeltaVector::zero(0) }).unwrap();
        assert_eq!(ph, Some(TxPhase::Prepared));
        tokio::time::sleep(std::time::Duration::from_millis(80)).await;
        assert_eq!(c.cleanup_timeouts(), vec![tx_id]);
        let t = Arc::new(MemoryTransport::new("coord".to_string()));
        c.process_pending_aborts(&*t).await; // shards are told to abort
        // crash here
    }
    let c2 = coord(&p, 5000);
    let stats = c2.recover_from_wal().unwrap();
    println!("recovered: {stats:?}; tx phase {:?}", c2.get(tx_id).map(|t| t.phase));
    let r = c2.commit(tx_id);
    println!("commit after restart of a transaction whose abort was already broadcast: {r:?}");
    assert!(r.is_err(), "decision reversed: abort broadcast before the crash, commit accepted after it");
}
