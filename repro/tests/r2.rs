use vector_engine::VectorEngine;
use tensor_store::HNSWConfig;

#[test]
fn c06_stale_cache_after_batch_delete() {
    let e = VectorEngine::new();
    for i in 0..20 { e.store_embedding(&format!("k{i}"), vec![1.0, i as f32, 0.5]).unwrap(); }
    e.build_and_cache_index(HNSWConfig::default()).unwrap();
    e.batch_delete_embeddings(vec!["k3".to_string()]).unwrap();
    let r = e.search_similar(&[1.0, 3.0, 0.5], 5).unwrap();
    println!("{:?}", r.iter().map(|x| x.key.clone()).collect::<Vec<_>>());
    assert!(r.iter().all(|x| x.key != "k3"), "deleted key returned from stale cached index");
}

#[test]
fn c06_stale_cache_after_clear() {
    let e = VectorEngine::new();
    for i in 0..20 { e.store_embedding(&format!("k{i}"), vec![1.0, i as f32, 0.5]).unwrap(); }
    e.build_and_cache_index(HNSWConfig::default()).unwrap();
    e.clear().unwrap();
    let r = e.search_similar(&[1.0, 3.0, 0.5], 5).unwrap();
    assert!(r.is_empty(), "results after clear: {:?}", r.iter().map(|x| x.key.clone()).collect::<Vec<_>>());
}
