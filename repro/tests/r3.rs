use tensor_chain::gossip::{GossipNodeState, LWWMembershipState};
use tensor_chain::membership::NodeHealth;

#[test]
fn c17_tie_on_health() {
    let a = GossipNodeState::with_wall_time("x".to_string(), NodeHealth::Healthy, 5, 1, 0);
    let b = GossipNodeState::with_wall_time("x".to_string(), NodeHealth::Degraded, 5, 1, 0);
    let mut n1 = LWWMembershipState::new();
    n1.merge(&[a.clone()]); n1.merge(&[b.clone()]);
    let mut n2 = LWWMembershipState::new();
    n2.merge(&[b]); n2.merge(&[a]);
    let h1 = n1.get(&"x".to_string()).unwrap().health;
    let h2 = n2.get(&"x".to_string()).unwrap().health;
    println!("{h1:?} {h2:?}");
    assert_eq!(h1, h2, "same update set, different views");
}
