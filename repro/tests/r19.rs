#[test]
fn c20_unsorted_ids_do_not_round_trip() {
    let ids = vec![5u64, 3, 9, 9, 1];
    let back = tensor_compress::decompress_ids(&tensor_compress::compress_ids(&ids));
    println!("{ids:?} -> {back:?}");
    assert_eq!(ids, back);
}
