use std::sync::Arc;
use tensor_chain::raft::{RaftNode, RaftConfig};
use tensor_chain::network::{MemoryTransport, Message, AppendEntries, LogEntry};
use tensor_chain::block::{Block, BlockHeader};

fn blk(h: u64) -> Block { Block::new(BlockHeader::new(h, [0u8;32],[0u8;32],[0u8;32],"p".to_string()), vec![]) }
fn node(id: &str, peers: &[&str], term: u64, log: Vec<LogEntry>) -> RaftNode {
    let t = Arc::new(MemoryTransport::new(id.to_string()));
    let mut cfg = RaftConfig::default();
    cfg.enable_fast_path = false;
    RaftNode::with_state(id.to_string(), peers.iter().map(|s| s.to_string()).collect(), t, cfg, term, None, log)
}

// R01e commit-bound: a follower holding a divergent, uncommitted suffix marks it committed
// when a heartbeat of the new leader carries leader_commit > 0.
#[test]
fn c01_follower_commits_its_own_divergent_suffix() {
    // A was leader in term 1 and wrote two entries nobody else has (never committed).
    let a = node("A", &["B","C"], 1, vec![LogEntry::new(1,1,blk(1)), LogEntry::new(1,2,blk(2))]);
    assert_eq!(a.commit_index(), 0);
    // B (term 2) has committed two entries of its own with C. Its heartbeat to A, whose next_index
    // it has not probed yet, is sent with prev_log_index = 0 and leader_commit = 2.
    let hb = Message::AppendEntries(AppendEntries{ term: 2, leader_id: "B".into(), prev_log_index: 0, prev_log_term: 0, entries: vec![], leader_commit: 2, block_embedding: None });
    let resp = a.handle_message(&"B".to_string(), &hb).unwrap();
    println!("A answers {resp:?}; A.commit_index = {}", a.commit_index());
    // A's entries 1..2 are term-1 entries the leader does not have; they must not be committed.
    assert_eq!(a.commit_index(), 0, "follower committed entries of term 1 that the term-2 leader never replicated");
}
