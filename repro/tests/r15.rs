use tensor_store::{TensorStore, TensorData, TensorValue, ScalarValue, WalConfig};
#[test]
fn c02_rotation_debug() {
    let dir = tempfile::tempdir().unwrap();
    let p = dir.path().join("w.wal");
    let cfg = WalConfig::for_testing();
    let n = 200;
    {
        let s = TensorStore::open_durable(&p, cfg.clone()).unwrap();
        for i in 0..n { let mut t = TensorData::new(); t.set("v", TensorValue::Scalar(ScalarValue::Int(i))); s.put_durable(format!("k{i}"), t).unwrap(); }
        println!("{:?}", s.wal_status());
    }
    for e in std::fs::read_dir(dir.path()).unwrap() { let e = e.unwrap(); println!("{:?} {}", e.file_name(), e.metadata().unwrap().len()); }
    let s = TensorStore::recover(&p, &cfg, None).unwrap();
    let present = (0..n).filter(|i| s.exists(&format!("k{i}"))).count();
    println!("{present}/{n} acknowledged writes recovered");
    assert_eq!(present as i64, n);
}
