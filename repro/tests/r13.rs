use std::sync::Arc;
use tensor_blob::{BlobStore, BlobConfig, PutOptions};
use tensor_store::{TensorStore, TensorValue, ScalarValue};

#[test]
fn c19_concurrent_identical_content_refcount() {
    let rt = Arc::new(tokio::runtime::Builder::new_multi_thread().worker_threads(2).enable_all().build().unwrap());
    let mut cfg = BlobConfig::default();
    cfg.chunk_size = 64;
    let store = TensorStore::new();
    let bs = Arc::new(rt.block_on(BlobStore::new(store.clone(), cfg)).unwrap());
    let mut wrong = 0; let rounds = 3000;
    for round in 0..rounds {
        let data: Vec<u8> = (0..64u32).map(|b| (b + round) as u8).chain((round as u32).to_le_bytes()).collect::<Vec<u8>>()[..64].to_vec();
        let mut data = data; data[0..4].copy_from_slice(&(round as u32).to_le_bytes());
        let b = Arc::new(std::sync::Barrier::new(4));
        let hs: Vec<_> = (0..4).map(|i| { let bs = bs.clone(); let rt = rt.clone(); let b = b.clone(); let data = data.clone();
            std::thread::spawn(move || { b.wait(); rt.block_on(bs.put(&format!("f{i}"), &data, PutOptions::default())).unwrap() }) }).collect();
        let _ids: Vec<String> = hs.into_iter().map(|h| h.join().unwrap()).collect();
        let key = tensor_blob::Chunk::new(data.clone()).key();
        let refs = match store.get(&key).unwrap().get("_refs") { Some(TensorValue::Scalar(ScalarValue::Int(r))) => *r, _ => -1 };
        if refs != 4 { wrong += 1; if wrong <= 3 { println!("round {round}: 4 artifacts share the chunk, refs = {refs}"); } }
    }
    println!("{wrong}/{rounds} rounds with a wrong reference count");
    assert_eq!(wrong, 0);
}
