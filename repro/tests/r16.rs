use std::sync::Arc;
use tensor_store::{TensorStore, TensorData, TensorValue, ScalarValue, WalConfig};

fn val(s: &TensorStore, k: &str) -> i64 { match s.get(k).unwrap().get("v") { Some(TensorValue::Scalar(ScalarValue::Int(v))) => *v, _ => -1 } }

#[test]
fn c11_durable_order_differs_from_memory_order() {
    let dir = tempfile::tempdir().unwrap();
    let rounds = 100_000usize;
    let mut cfg = WalConfig::default();
    cfg.sync_mode = tensor_store::SyncMode::Manual; // ordering, not fsync, is under test
    let p = dir.path().join("w.wal");
    let mut mem = Vec::with_capacity(rounds);
    {
        let s = Arc::new(TensorStore::open_durable(&p, cfg.clone()).unwrap());
        let b = Arc::new(std::sync::Barrier::new(2));
        let hs: Vec<_> = (0..2i64).map(|t| { let s = s.clone(); let b = b.clone(); std::thread::spawn(move || {
            for r in 0..rounds {
                let mut d = TensorData::new(); d.set("v", TensorValue::Scalar(ScalarValue::Int(t)));
                let k = format!("k{r}");
                b.wait(); s.put_durable(k, d).unwrap();
            } }) }).collect();
        for h in hs { h.join().unwrap(); }
        s.wal_sync().unwrap();
        for r in 0..rounds { mem.push(val(&s, &format!("k{r}"))); }
    }
    let rec = TensorStore::recover(&p, &cfg, None).unwrap();
    let mut diverged = 0;
    for r in 0..rounds { let v = val(&rec, &format!("k{r}")); if v != mem[r] { diverged += 1; if diverged <= 3 { println!("key k{r}: readers last saw v={}, recovery yields v={v}", mem[r]); } } }
    println!("{diverged}/{rounds} keys diverged after quiescence + recovery");
    assert_eq!(diverged, 0);
}
