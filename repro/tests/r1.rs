use tensor_store::{TensorStore, TensorData, TensorValue, ScalarValue, WalConfig};

fn td(v: i64) -> TensorData { let mut t = TensorData::new(); t.set("v", TensorValue::Scalar(ScalarValue::Int(v))); t }

#[test]
fn c02_torn_tail_then_append() {
    let dir = tempfile::tempdir().unwrap();
    let wal = dir.path().join("w.wal");
    {
        let s = TensorStore::open_durable(&wal, WalConfig::default()).unwrap();
        s.put_durable("a", td(1)).unwrap();
        s.put_durable("b", td(2)).unwrap();
    }
    // crash: tear the last record
    let len = std::fs::metadata(&wal).unwrap().len();
    let f = std::fs::OpenOptions::new().write(true).open(&wal).unwrap();
    f.set_len(len - 3).unwrap();
    drop(f);
    // recover once
    {
        let s = TensorStore::recover(&wal, &WalConfig::default(), None).unwrap();
        assert!(s.get("a").is_ok());
        assert!(s.get("b").is_err(), "b was torn");
        s.put_durable("c", td(3)).unwrap(); // acknowledged after recovery
    }
    // second crash (clean), recover again
    let r = TensorStore::recover(&wal, &WalConfig::default(), None);
    match r {
        Ok(s) => { println!("recovered; c present = {}", s.get("c").is_ok()); assert!(s.get("c").is_ok(), "acknowledged write c lost"); }
        Err(e) => panic!("recovery failed outright: {e}"),
    }
}

#[test]
fn c07_compressed_bytes() {
    let dir = tempfile::tempdir().unwrap();
    let p = dir.path().join("s.bin");
    let s = TensorStore::new();
    let mut t = TensorData::new();
    t.set("b", TensorValue::Scalar(ScalarValue::Bytes(vec![1,2,3,4])));
    s.put("k", t).unwrap();
    s.save_snapshot_compressed(&p, Default::default()).unwrap();
    let l = TensorStore::load_snapshot_compressed(&p).unwrap();
    let got = l.get("k").unwrap();
    println!("got = {:?}", got.get("b"));
    assert_eq!(got.get("b"), Some(&TensorValue::Scalar(ScalarValue::Bytes(vec![1,2,3,4]))));
}
