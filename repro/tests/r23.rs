use tensor_chain::distributed_tx::{DistributedTxCoordinator, DistributedTxConfig, PrepareVote, TxPhase};
use tensor_chain::consensus::{ConsensusManager, ConsensusConfig, DeltaVector};
use tensor_chain::tx_wal::TxWal;

fn coord(p: &std::path::Path, timeout_ms: u64) -> DistributedTxCoordinator {
    let mut cfg = DistributedTxConfig::default();
    cfg.prepare_timeout_ms = timeout_ms;
    DistributedTxCoordinator::new(ConsensusManager::new(ConsensusConfig::default()), cfg).with_wal(TxWal::open(p).unwrap())
}

// R03d/R03e: recover() and force_resolve() decide without a log record; the next restart brings the
// transaction back as Prepared and the opposite outcome is accepted.
#[test]
fn c13_recover_decision_is_not_logged() {
    let dir = tempfile::tempdir().unwrap();
    let p = dir.path().join("tx.wal");
    let id;
    {
        let c = coord(&p, 60_000);
        let tx = c.begin(&"n1".to_string(), &[0, 1]).unwrap();
        id = tx.tx_id;
        c.record_vote(id, 0, PrepareVote::Yes { lock_handle: 1, delta: DeltaVector::zero(0) }).unwrap();
        let ph = c.record_vote(id, 1, PrepareVote::Yes { lock_handle: 2, delta: DeltaVector::zero(0) }).unwrap();
        assert_eq!(ph, Some(TxPhase::Prepared));
        // crash #1
    }
    {
        let c = coord(&p, 60_000);
        c.recover_from_wal().unwrap();
        let st = c.recover();
        println!("recover(): {st:?}; decisions to deliver: {:?}", c.get_pending_decisions());
        assert_eq!(c.get_pending_decisions(), vec![(id, TxPhase::Committing)], "recover() decided commit");
        // the cluster layer now sends COMMIT to the shards … crash #2 before completion
    }
    let c = coord(&p, 60_000);
    c.recover_from_wal().unwrap();
    println!("after second restart: {:?}", c.get(id).map(|t| t.phase));
    let r = c.abort(id, "operator/timeout");
    println!("abort after commit was already decided and sent: {r:?}");
    assert!(r.is_err(), "commit decided by recover() was not logged; abort accepted after restart");
}

#[test]
fn c13_force_resolve_is_not_logged() {
    let dir = tempfile::tempdir().unwrap();
    let p = dir.path().join("tx.wal");
    let id;
    {
        let c = coord(&p, 60_000);
        let tx = c.begin(&"n1".to_string(), &[0, 1]).unwrap();
        id = tx.tx_id;
        c.record_vote(id, 0, PrepareVote::Yes { lock_handle: 1, delta: DeltaVector::zero(0) }).unwrap();
        c.record_vote(id, 1, PrepareVote::Yes { lock_handle: 2, delta: DeltaVector::zero(0) }).unwrap();
        c.force_resolve(id, false).unwrap(); // partition merge decides abort
        assert!(c.get(id).is_none());
        // crash
    }
    let c = coord(&p, 60_000);
    c.recover_from_wal().unwrap();
    println!("after restart: {:?}", c.get(id).map(|t| t.phase));
    let r = c.commit(id);
    println!("commit after force_resolve(abort): {r:?}");
    assert!(r.is_err(), "abort decided by force_resolve was not logged; commit accepted after restart");
}
