use relational_engine::{RelationalEngine, Schema, Column, ColumnType, Value, Condition};
use tensor_store::TensorStore;
use std::collections::HashMap;

// R07a (compressed): the compressed snapshot saves only what scan()/get() reach; table rows live in the
// relational slab and are not in it.
#[test]
fn c07_compressed_snapshot_loses_table_rows() {
    let store = TensorStore::new();
    let eng = RelationalEngine::with_store(store.clone());
    let schema = Schema::new(vec![Column::new("id", ColumnType::Int), Column::new("name", ColumnType::String)]);
    eng.create_table("t", schema).unwrap();
    for i in 0..5 {
        let mut row = HashMap::new();
        row.insert("id".to_string(), Value::Int(i));
        row.insert("name".to_string(), Value::String(format!("n{i}")));
        eng.insert("t", row).unwrap();
    }
    assert_eq!(eng.select("t", Condition::True).unwrap().len(), 5);

    let dir = tempfile::tempdir().unwrap();
    // uncompressed round trip for comparison
    let p0 = dir.path().join("plain.bin");
    store.save_snapshot(&p0).unwrap();
    let s0 = TensorStore::load_snapshot(&p0).unwrap();
    let e0 = RelationalEngine::with_store(s0);
    let n0 = e0.select("t", Condition::True).map(|r| r.len());
    println!("plain snapshot round trip: {n0:?}");

    let p1 = dir.path().join("compressed.bin");
    store.save_snapshot_compressed(&p1, tensor_compress::CompressionConfig::default()).unwrap();
    let s1 = TensorStore::load_snapshot_compressed(&p1).unwrap();
    let e1 = RelationalEngine::with_store(s1);
    let n1 = e1.select("t", Condition::True).map(|r| r.len());
    println!("compressed snapshot round trip: {n1:?}");
    assert_eq!(n1.ok(), Some(5), "table rows missing after the compressed round trip");
}
