// C20: encode_v2 bounds the frame it emits (compressed size + flags byte); the decoder bounds the *decompressed* size
// (MAX_DECOMPRESSED_SIZE in decompress, max_frame_length in decode_payload_v2). A large, compressible message is accepted by
// the encoder and rejected by every decoder: decode(encode(m)) is an error although encode(m) was Ok.
use tensor_chain::network::{Message, SnapshotResponse};
use tensor_chain::tcp::compression::{CompressionConfig, CompressionMethod};
use tensor_chain::tcp::LengthDelimitedCodec;

#[test]
fn c20_encoder_accepts_what_decoder_rejects() {
    let max = 16 * 1024 * 1024;
    let mut cfg = CompressionConfig::default();
    cfg.enabled = true;
    cfg.method = CompressionMethod::Lz4;
    let mut codec = LengthDelimitedCodec::with_compression(max, cfg);
    codec.set_compression_enabled(true);
    let msg = Message::SnapshotResponse(SnapshotResponse {
        snapshot_height: 1, snapshot_hash: [0u8; 32], data: { let mut x: u32 = 12345; let block: Vec<u8> = (0..4096).map(|_| { x = x.wrapping_mul(1664525).wrapping_add(1013904223); (x >> 24) as u8 }).collect(); block.iter().cycle().take(17 * 1024 * 1024).copied().collect() }, offset: 0, total_size: 17 * 1024 * 1024, is_last: true,
    });
    let frame = codec.encode_v2(&msg);
    println!("encode_v2: {:?}", frame.as_ref().map(|f| f.len()).map_err(|e| e.to_string()));
    let frame = match frame { Ok(f) => f, Err(_) => return };  // refusing to encode is consistent
    let decoded = codec.decode_payload_v2(&frame[4..]);
    println!("decode_payload_v2: {:?}", decoded.as_ref().map(|_| "ok").map_err(|e| e.to_string()));
    assert!(decoded.is_ok(), "the encoder emitted a {}-byte frame that the decoder refuses", frame.len());
}
