// C10 (R10a, install_snapshot_entries): entries installed from a snapshot replace the in-memory log with no WAL record.
use std::sync::Arc;
use sha2::{Digest, Sha256};
use tensor_chain::block::{Block, BlockHeader};
use tensor_chain::network::{LogEntry, MemoryTransport};
use tensor_chain::raft::{RaftConfig, RaftNode, SnapshotMetadata};

fn blk(h: u64) -> Block { Block::new(BlockHeader::new(h, [0u8; 32], [0u8; 32], [0u8; 32], "p".to_string()), vec![]) }

#[test]
fn c10_installed_snapshot_entries_survive_restart() {
    let dir = tempfile::tempdir().unwrap();
    let p = dir.path().join("raft.wal");
    let entries: Vec<LogEntry> = (1..=5).map(|i| LogEntry::new(3, i, blk(i))).collect();
    let data = bitcode::serialize(&entries).unwrap();
    let hash: [u8; 32] = Sha256::digest(&data).into();
    {
        let t = Arc::new(MemoryTransport::new("B".to_string()));
        let n = RaftNode::with_wal("B".to_string(), vec!["A".into(), "C".into()], t, RaftConfig::default(), &p).unwrap();
        let meta = SnapshotMetadata::new(5, 3, hash, vec!["A".into(), "B".into(), "C".into()], data.len() as u64);
        n.install_snapshot(meta, &data).unwrap();
        println!("after install: last_log_index = {}, term = {}", n.last_log_index(), n.current_term());
        assert_eq!(n.last_log_index(), 5);
    }
    let t = Arc::new(MemoryTransport::new("B".to_string()));
    let n = RaftNode::with_wal("B".to_string(), vec!["A".into(), "C".into()], t, RaftConfig::default(), &p).unwrap();
    println!("after restart: last_log_index = {}, term = {}", n.last_log_index(), n.current_term());
    assert_eq!(n.last_log_index(), 5, "the entries the follower installed (and acknowledged to the leader) are gone after restart");
}
