use tensor_store::{TensorStore, TensorData, TensorValue, ScalarValue};
use std::sync::Arc;

#[test]
fn c11_two_deletes_both_succeed() {
    let mut both = 0;
    for round in 0..2000 {
        let s = Arc::new(TensorStore::new());
        let mut t = TensorData::new(); t.set("v", TensorValue::Scalar(ScalarValue::Int(round)));
        s.put("k", t).unwrap();
        let b = Arc::new(std::sync::Barrier::new(2));
        let hs: Vec<_> = (0..2).map(|_| { let s = s.clone(); let b = b.clone(); std::thread::spawn(move || { b.wait(); s.delete("k").is_ok() }) }).collect();
        let oks = hs.into_iter().map(|h| h.join().unwrap()).filter(|x| *x).count();
        if oks == 2 { both += 1; }
    }
    println!("rounds in which both concurrent deletes of one existing key returned Ok: {both}");
    assert_eq!(both, 0);
}
