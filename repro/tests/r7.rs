use std::sync::Arc;
use tensor_chain::raft::{RaftNode, RaftConfig, RaftState};
use tensor_chain::network::{MemoryTransport, Message, AppendEntries, LogEntry};
use tensor_chain::block::{Block, BlockHeader};

fn blk(h: u64) -> Block { Block::new(BlockHeader::new(h, [0u8;32],[0u8;32],[0u8;32],"p".to_string()), vec![]) }
fn node(id: &str, peers: &[&str], term: u64, log: Vec<LogEntry>) -> RaftNode {
    let t = Arc::new(MemoryTransport::new(id.to_string()));
    let mut cfg = RaftConfig::default();
    cfg.enable_fast_path = false;
    RaftNode::with_state(id.to_string(), peers.iter().map(|s| s.to_string()).collect(), t, cfg, term, None, log)
}

#[test]
fn c01_follower_acks_entries_it_does_not_hold() {
    // A was leader in term 1 and wrote two entries nobody else has.
    let a = node("A", &["B","C"], 1, vec![LogEntry::new(1,1,blk(1)), LogEntry::new(1,2,blk(2))]);
    // B is leader in term 2 with an empty log at election time.
    let b = node("B", &["A","C"], 2, vec![]);
    b.become_leader();
    assert_eq!(b.state(), RaftState::Leader);
    // B's first heartbeat to A: prev=0, no entries.
    let hb = Message::AppendEntries(AppendEntries{ term: 2, leader_id: "B".into(), prev_log_index: 0, prev_log_term: 0, entries: vec![], leader_commit: 0, block_embedding: None });
    let resp = a.handle_message(&"B".to_string(), &hb).unwrap();
    println!("A answers: {resp:?}");
    // B now appends two entries of its own (term 2) locally only.
    // (propose requires quorum health; write through the protocol instead)
    b.quorum_tracker().mark_reachable(&"A".to_string());
    b.quorum_tracker().mark_reachable(&"C".to_string());
    println!("propose: {:?} {:?}", b.propose(blk(1)).is_ok(), b.propose(blk(2)).is_ok());
    println!("B log len {} commit {}", b.log_length(), b.commit_index());
    // deliver A's (possibly delayed) heartbeat response
    b.handle_message(&"A".to_string(), &resp);
    println!("B commit index after A's ack = {}", b.commit_index());
    // A holds [1:t1, 2:t1]; B holds [1:t2, 2:t2]; C holds nothing.
    assert!(b.commit_index() == 0, "leader committed index {} on a quorum that does not hold its entries", b.commit_index());
}
