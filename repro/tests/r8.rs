use query_router::{QueryRouter, QueryResult};
use tensor_store::TensorStore;

#[test]
fn c08_rollback_loses_table() {
    let mut router = QueryRouter::with_shared_store(TensorStore::new());
    router.init_blob().unwrap();
    router.init_checkpoint().unwrap();
    router.execute("CREATE TABLE t (id:INT, name:TEXT)").unwrap();
    router.execute("INSERT t id=1, name='Alice'").unwrap();
    router.execute_parsed("CHECKPOINT 'cp'").unwrap();
    router.execute("INSERT t id=2, name='Bob'").unwrap();
    router.execute_parsed("ROLLBACK TO 'cp'").unwrap();
    let r = router.execute("SELECT t");
    println!("after rollback: {r:?}");
    match r { Ok(QueryResult::Rows(rows)) => assert_eq!(rows.len(), 1), other => panic!("table that existed at the checkpoint: {other:?}") }
}
