use tensor_chain::distributed_tx::{DistributedTxCoordinator, DistributedTxConfig, PrepareVote};
use tensor_chain::consensus::{ConsensusManager, ConsensusConfig, DeltaVector};

fn coord() -> DistributedTxCoordinator {
    DistributedTxCoordinator::new(ConsensusManager::new(ConsensusConfig::default()), DistributedTxConfig::default())
}

// R03c: force_resolve(commit=true) decides commit although not every participant voted yes.
#[test]
fn c03_force_resolve_commits_with_missing_votes() {
    let c = coord();
    let tx = c.begin(&"n1".to_string(), &[0, 1, 2]).unwrap();
    let id = tx.tx_id;
    c.record_vote(id, 0, PrepareVote::Yes { lock_handle: 1, delta: DeltaVector::zero(0) }).unwrap();
    // shards 1 and 2 have not voted
    let before = c.stats().snapshot().committed;
    let r = c.force_resolve(id, true);
    let after = c.stats().snapshot().committed;
    println!("force_resolve(commit) with 1 of 3 votes: {r:?}; committed {before} -> {after}");
    assert!(r.is_err() && after == before, "commit decided with 1 of 3 votes");
}

// R03c: force_resolve(commit=true) reverses an abort decision that was already queued for broadcast.
#[test]
fn c03_force_resolve_commits_after_abort_decision() {
    let c = coord();
    let tx = c.begin(&"n1".to_string(), &[0, 1]).unwrap();
    let id = tx.tx_id;
    let keys: std::collections::HashSet<String> = ["k".to_string()].into_iter().collect();
    let d0 = DeltaVector::new(&[1.0, 0.0, 0.0], keys.clone(), id);
    let d1 = DeltaVector::new(&[1.0, 0.0, 0.0], keys, id);
    c.record_vote(id, 0, PrepareVote::Yes { lock_handle: 1, delta: d0 }).unwrap();
    let ph = c.record_vote(id, 1, PrepareVote::Yes { lock_handle: 2, delta: d1 }).unwrap();
    println!("both shards voted yes on the same key: {ph:?}; queued aborts {:?}", c.take_pending_aborts());
    assert_eq!(ph, Some(tensor_chain::distributed_tx::TxPhase::Aborting));
    let r = c.force_resolve(id, true);
    println!("force_resolve(commit) after the abort was decided and queued: {r:?}");
    assert!(r.is_err(), "abort decision reversed into commit");
}

// with no votes at all `all_yes()` is vacuously true as well
#[test]
fn c03_force_resolve_commits_with_no_votes() {
    let c = coord();
    let tx2 = c.begin(&"n1".to_string(), &[0, 1]).unwrap();
    let r2 = c.force_resolve(tx2.tx_id, true);
    println!("force_resolve(commit) with 0 of 2 votes: {r2:?}");
    assert!(r2.is_err(), "commit decided with no votes at all");
}
