#!/usr/bin/env python3
"""Regenerates §3 of DESIGN.md from the checker's own rule texts (reports/*.txt) and evidence; run after ./nv all."""
import json, re
ND = json.load(open('/verif/tools/nd_clauses.json'))
TITLE = {l['id']: l['title'] for l in map(json.loads, open('/verif/properties.jsonl'))}
known = {}
for l in open('/verif/known_findings.txt'):
    if l.startswith('known:'):
        m = re.match(r'known: property=(C\d+) key=(\S+(?: \S+)*?\|\d+) (.*)', l.strip())
        if m:
            known.setdefault(m.group(1), []).append((m.group(2), m.group(3)))
    elif l.startswith('fixed:'):
        m = re.match(r'fixed: property=(C\d+) (\w+) (.*)', l.strip())
        if m:
            known.setdefault(m.group(1) + 'f', []).append((m.group(2), m.group(3)))
out = ['## 3. Per-property checks as built\n',
       'Notation: **R** = rule (text generated from the checker\'s own rule descriptions by `tools/design_sec3.py`, so this section\ncannot drift from the code); **N/D** = clause not decided. Each check is `./nv check <id>`; counts are from the current tree.\n']
for pid in ['C%02d' % i for i in range(1, 21)]:
    if pid == 'C18':
        out.append('### C18 Path queries — not applicable\n\nOptimality and textbook agreement are facts about computed values on arbitrary graphs; no clause is visible in\ncode shape without freezing the algorithm.\n')
        continue
    cov = json.load(open('/verif/evidence/%s.json' % pid))['coverage']
    out.append('### %s %s\n' % (pid, TITLE[pid]))
    out.append('N/D: %s\n' % ND[pid])
    for l in open('/verif/reports/%s.txt' % pid):
        if l.startswith('RULE ') and not l.startswith('RULE SELF'):
            rid, txt = l[5:].split(': ', 1)
            out.append('* **%s** — %s' % (rid, txt.strip()))
    out.append('')
    out.append('Instances on the current tree: %d checked, %d hold, %d known findings, %d unresolved; %d functions analysed.' % (
        cov['obligations'], cov['discharged'], len(cov['known_findings_hit']), len(cov['unresolved']), cov['n_functions_analysed']))
    for (h, w) in known.get(pid + 'f', []):
        out.append('* fixed (%s): %s' % (h, w))
    for (k, w) in known.get(pid, []):
        out.append('* **known**: `%s` — %s' % (k, w))
    out.append('')
sec = '\n'.join(out) + '\n---------------------------------------------------------------------------\n\n'
d = open('/verif/DESIGN.md').read()
i3 = d.index('## 3. Per-property')
i4 = d.index('## 4. Not applicable (whole property)')
open('/verif/DESIGN.md', 'w').write(d[:i3] + sec + d[i4:])
print('regenerated §3')
