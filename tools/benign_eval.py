#!/usr/bin/env python3
"""benign_eval.py <tag> [--skip-confirm]     (e.g. B01_1)

A behaviour-preserving refactoring written by a sub-agent (only the property text, own worktree): confirms that the existing
tests of the touched crates pass with it (in the agent's worktree /tmp/seed/wt-<tag>), then runs every check against it in that
worktree (NV_REPO) and records whether any check raises an alarm.  An alarm here is a false alarm of the checker.
Stores patch.diff + meta.json under /verif/benign/<tag>/."""
import json, os, re, shutil, subprocess, sys

tag = sys.argv[1]
skip = '--skip-confirm' in sys.argv
OUT, WT, DEST = '/tmp/seed/out-' + tag, '/tmp/seed/wt-' + tag, '/verif/benign/' + tag
ALWAYS_FAIL = ['test_raft_wal_append_returns_io_error_on_failure', 'test_tx_wal_append_disk_full_simulation',
               'test_tx_wal_open_permission_denied', 'test_tx_wal_truncate_error_handling',
               'test_raft_wal_readonly_file_append_fails', 'test_tensor_store_readonly_wal_put_fails_gracefully']


def sh(cmd, cwd=None, env=None, timeout=7200):
    e = dict(os.environ, CARGO_NET_OFFLINE='true')
    if env:
        e.update(env)
    r = subprocess.run(cmd, shell=True, cwd=cwd, env=e, stdout=subprocess.PIPE, stderr=subprocess.STDOUT, text=True, timeout=timeout)
    return r.returncode, r.stdout


src = OUT if os.path.exists(os.path.join(OUT, 'meta.json')) else DEST
meta = json.load(open(os.path.join(src, 'meta.json')))
patch = os.path.join(src, 'patch.diff')
res = {'tag': tag, 'property': meta.get('property'), 'kind': 'benign'}
made_wt = False
if not os.path.isdir(WT):
    rc, out = sh('git -C /repo worktree add -q --detach %s HEAD' % WT)
    made_wt = True
sh('git reset -q --hard && git clean -fdq -e target', cwd=WT)
rc, out = sh('git apply --whitespace=nowarn %s' % patch, cwd=WT)
if rc != 0:
    print('patch does not apply:', out[-400:])
    sys.exit(2)
if not skip:
    crates = sorted({f.split('/')[0] for f in meta.get('files_changed', []) if '/' in f})
    res['existing_tests'] = {}
    for c in crates:
        rc, o = sh('cargo test --offline -p %s --no-fail-fast 2>&1 | grep -E "^test .*FAILED|^test result|^error"' % c, cwd=WT,
                   env={'CARGO_TARGET_DIR': '/tmp/seed/benign-target'})
        fails = [l for l in o.splitlines() if ((l.startswith('test ') and 'FAILED' in l and not l.startswith('test result')) or l.startswith('error['))
                 and not any(a in l for a in ALWAYS_FAIL)]
        res['existing_tests'][c] = 'pass' if not fails and 'test result' in o else 'FAIL: ' + '; '.join(fails[:5])
    res['tests_pass'] = all(v == 'pass' for v in res['existing_tests'].values())
else:
    prev = {}
    try:
        prev = json.load(open(os.path.join(DEST, 'meta.json'))).get('evaluation', {})
    except Exception:
        pass
    res['existing_tests'], res['tests_pass'] = prev.get('existing_tests'), prev.get('tests_pass')
NVOUT = '/tmp/seed/nvout-%s' % tag
rc, out = sh('./nv all', cwd='/verif', env={'NV_REPO': WT, 'NV_OUT': NVOUT})
alarms = {}
cur = None
for l in out.splitlines():
    m = re.match(r'^  (R\w+\|.*\|\d+) ', l)
    if m:
        cur = m.group(1)
    m2 = re.match(r'^VIOLATION property=(C\d+)', l)
    if m2:
        alarms.setdefault(m2.group(1), [])
for pid in alarms:
    for l in open(NVOUT + '/reports/%s.txt' % pid):
        if l.startswith('VIOLATION key='):
            alarms[pid].append(l.strip().split('key=', 1)[1])
res['false_alarms'] = alarms
crashed = rc not in (0, 1) or 'Traceback' in out or 'ERROR property=' in out
if crashed:
    res['crashed'] = [l for l in out.splitlines() if l.startswith('ERROR property=') or 'Error' in l][:5] or ['rc=%d' % rc]
res['silent'] = not alarms and not crashed
os.makedirs(DEST, exist_ok=True)
if src != DEST:
    shutil.copy(patch, os.path.join(DEST, 'patch.diff'))
meta['evaluation'] = res
json.dump(meta, open(os.path.join(DEST, 'meta.json'), 'w'), indent=1)
print(json.dumps(res, indent=1))
shutil.rmtree(NVOUT, ignore_errors=True)
if made_wt:
    sh('git -C /repo worktree remove --force %s' % WT)
    sh('git -C /repo worktree prune')
