#!/usr/bin/env python3
"""seed_eval.py <tag>   (e.g. C02_1)

Confirms a seeded property-breaking change produced by a sub-agent and runs the checks against it.
  1. demo fails with the patch and passes without it, existing tests of the touched crates pass with it
     (run in the agent's scratch worktree /tmp/seed/wt-<tag>, outside /repo and /verif);
  2. applies the patch to /repo, runs every registered quick check, records which report a NEW violation,
     and restores /repo (git checkout -- .);
  3. stores patch.diff, the demonstration and meta.json under /verif/seeded/<tag>/.
"""
import json, os, re, shutil, subprocess, sys

tag = sys.argv[1]
skip_confirm = '--skip-confirm' in sys.argv
OUT = '/tmp/seed/out-' + tag
WT = '/tmp/seed/wt-' + tag
DEST = '/verif/seeded/' + tag
ALWAYS_FAIL = ['test_raft_wal_append_returns_io_error_on_failure', 'test_tx_wal_append_disk_full_simulation',
               'test_tx_wal_open_permission_denied', 'test_tx_wal_truncate_error_handling',
               'test_raft_wal_readonly_file_append_fails', 'test_tensor_store_readonly_wal_put_fails_gracefully']


def sh(cmd, cwd=None, env=None, timeout=3600):
    e = dict(os.environ)
    e['CARGO_NET_OFFLINE'] = 'true'
    if env:
        e.update(env)
    r = subprocess.run(cmd, shell=True, cwd=cwd, env=e, stdout=subprocess.PIPE, stderr=subprocess.STDOUT, text=True, timeout=timeout)
    return r.returncode, r.stdout


meta = json.load(open(os.path.join(OUT, 'meta.json')))
patch = os.path.join(OUT, 'patch.diff')
result = {'tag': tag, 'property': meta.get('property'), 'summary': meta.get('summary'), 'needs_to_manifest': meta.get('needs_to_manifest')}
env = {'CARGO_TARGET_DIR': WT + '/target'}

# --- 1. confirm in the scratch worktree
if not skip_confirm:
    rc, out = sh('git status --short | head -20', cwd=WT)
    # make sure the worktree has exactly the patch applied: reset and re-apply
    demo_rel = (meta.get('demo_path_in_repo') or '').split()[0] if meta.get('demo_path_in_repo') else None
    sh('git checkout -q -- . ', cwd=WT)
    rc, out = sh('git apply --whitespace=nowarn %s' % patch, cwd=WT)
    if rc != 0:
        print('patch does not apply to the worktree:', out[-500:])
        sys.exit(2)
    # existing tests of the touched crates, with the patch and WITHOUT the demonstration in the tree
    sh("find . -name 'seed_demo_*' -not -path './target/*' -delete", cwd=WT)
    crates = sorted({f.split('/')[0] for f in meta.get('files_changed', []) if '/' in f})
    result['existing_tests'] = {}
    for c in crates:
        rc, o = sh('cargo test --offline -p %s --no-fail-fast 2>&1 | grep -E "^test .*FAILED|^test result|^error" ' % c, cwd=WT, env=env)
        fails = [l for l in o.splitlines() if (('FAILED' in l and l.startswith('test ') and not l.startswith('test result')) or l.startswith('error')) and not any(a in l for a in ALWAYS_FAIL)]
        fails = [l for l in fails if not l.startswith('error: test failed') and not l.startswith('error: 1 target failed') and not re.match(r'^error: \d+ targets? failed', l)]
        result['existing_tests'][c] = 'pass' if not fails else 'FAIL: ' + '; '.join(fails[:5])
    if demo_rel:
        os.makedirs(os.path.dirname(os.path.join(WT, demo_rel)), exist_ok=True)
        shutil.copy(os.path.join(OUT, 'demo.rs'), os.path.join(WT, demo_rel))
    demo_cmd = meta['demo_cmd']
    demo_cmd = re.sub(r'CARGO_TARGET_DIR=\S+\s*', '', demo_cmd)
    demo_cmd = re.split(r'\s{2,}\(|\s+#', demo_cmd)[0]   # agents sometimes append prose
    rc1, out1 = sh(demo_cmd + ' 2>&1 | tail -40', cwd=WT, env=env)
    failed_with = ('FAILED' in out1 or 'panicked' in out1 or 'SIGABRT' in out1 or 'SIGSEGV' in out1) and 'error[' not in out1
    result['demo_with_patch'] = 'fails' if failed_with else 'DOES NOT FAIL'
    # without the patch
    sh('git apply -R --whitespace=nowarn %s' % patch, cwd=WT)
    rc2, out2 = sh(demo_cmd + ' 2>&1 | tail -40', cwd=WT, env=env)
    passed_without = 'test result: ok' in out2 and 'FAILED' not in out2
    result['demo_without_patch'] = 'passes' if passed_without else 'DOES NOT PASS'
    sh('git apply --whitespace=nowarn %s' % patch, cwd=WT)
    result['confirmed'] = bool(failed_with and passed_without and all(v == 'pass' for v in result['existing_tests'].values()))
else:
    prev = {}
    try:
        prev = json.load(open(os.path.join(DEST, 'meta.json'))).get('evaluation', {})
    except Exception:
        pass
    for k in ('confirmed', 'demo_with_patch', 'demo_without_patch', 'existing_tests'):
        result[k] = prev.get(k)

# --- 2. run the checks against it in /repo
rc, out = sh('git -C /repo status --short | grep -v "^??" | head -5')
if out.strip():
    print('/repo has uncommitted tracked changes; refusing to apply a seed:', out)
    sys.exit(2)
rc, out = sh('git -C /repo apply --check %s' % patch)
if rc != 0:
    result['applies_to_repo'] = False
    result['apply_error'] = out[-400:]
else:
    result['applies_to_repo'] = True
    sh('git -C /repo apply --whitespace=nowarn %s' % patch)
    try:
        rc, out = sh('./nv all 2>&1', cwd='/verif')
        caught = {}
        cur = None
        for l in out.splitlines():
            m = re.match(r'^  (R\w+\|.*\|\d+) (\S+)$', l)
            if m:
                cur = m.group(1)
            m2 = re.match(r'^VIOLATION property=(C\d+)', l)
            if m2:
                caught.setdefault(m2.group(1), [])
        # keys per property from the reports
        for pid in caught:
            for l in open('/verif/reports/%s.txt' % pid):
                if l.startswith('VIOLATION key='):
                    caught[pid].append(l.strip().split('key=', 1)[1])
        result['checks_firing'] = caught
        result['caught'] = bool(caught)
    finally:
        sh('git -C /repo checkout -- .')
        # a patch may add files
        rc, newf = sh('git -C /repo status --short | grep "^??" | grep -v target')
        result['restored'] = True

# --- 3. store
os.makedirs(DEST, exist_ok=True)
shutil.copy(patch, os.path.join(DEST, 'patch.diff'))
if os.path.exists(os.path.join(OUT, 'demo.rs')):
    shutil.copy(os.path.join(OUT, 'demo.rs'), os.path.join(DEST, 'demo.rs'))
meta['evaluation'] = result
json.dump(meta, open(os.path.join(DEST, 'meta.json'), 'w'), indent=1)
print(json.dumps(result, indent=1))
