#!/usr/bin/env python3
"""Re-runs every kept behaviour-preserving refactoring (benign/<tag>/patch.diff) against the checks; exit 0 iff all are silent."""
import glob, json, os, subprocess, sys
tags = sys.argv[1:] or sorted(os.path.basename(os.path.dirname(p)) for p in glob.glob('/verif/benign/*/meta.json'))
bad = 0
from concurrent.futures import ThreadPoolExecutor
jobs = int(os.environ.get('NV_JOBS', '4'))
with ThreadPoolExecutor(jobs) as ex:
    results = list(ex.map(lambda t: (t, subprocess.run(['python3', '/verif/tools/benign_eval.py', t, '--skip-confirm'], stdout=subprocess.PIPE, stderr=subprocess.STDOUT, text=True)), tags))
for t, r in results:
    try:
        j = json.loads(r.stdout[r.stdout.index('{'):])
        if j['silent']:
            print('%-7s silent' % t)
        else:
            bad += 1
            print('%-7s ALARM %s' % (t, sorted({k.split('|')[0] + ' ' + k.split('|')[1].split('::')[-1] for v in j['false_alarms'].values() for k in v})))
    except Exception:
        bad += 1
        print('%-7s ERROR %s' % (t, r.stdout[-300:]))
sys.exit(1 if bad else 0)
