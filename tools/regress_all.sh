#!/bin/bash
# Re-runs every kept seeded change (4 workers, each with its own scratch worktree) and every benign refactoring (4 workers).
# Output: /tmp/seed_regress.<k>.log, /tmp/benign_regress.log.  Exit 0 iff all seeds are caught, all benign patches and the clean tree silent.
cd /verif
export NV_FACT_SETS=200
tags=($(ls seeded | grep -E '^C[0-9]+_[0-9]+$' | sort))
n=${#tags[@]}; k=4; rc=0; pids=()
for i in $(seq 0 $((k-1))); do
  sub=(); for j in $(seq $i $k $((n-1))); do sub+=(${tags[$j]}); done
  python3 tools/seed_regress.py "${sub[@]}" > /tmp/seed_regress.$i.log 2>&1 & pids+=($!)
done
for p in "${pids[@]}"; do wait $p || rc=1; done
NV_JOBS=4 python3 tools/benign_regress.py > /tmp/benign_regress.log 2>&1 || rc=1
echo "regress_all rc=$rc"; exit $rc
