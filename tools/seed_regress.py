#!/usr/bin/env python3
"""seed_regress.py [tag ...]

Re-runs the checks against every kept seeded change (seeded/<tag>/patch.diff) and compares what fires with
what meta.json recorded.  Uses one scratch worktree of /repo's HEAD outside /repo and /verif (NV_REPO points the
extractor at it), so /repo itself is not touched; the worktree and its build output are removed at the end.
Exit 0 iff every confirmed seed is still reported by the check of its own property and the clean worktree is silent."""
import glob, json, os, re, subprocess, sys, tempfile

tags = sys.argv[1:] or sorted(os.path.basename(os.path.dirname(p)) for p in glob.glob('/verif/seeded/*/meta.json'))
wt = tempfile.mkdtemp(prefix='nvseedreg-')
os.rmdir(wt)


def sh(cmd, **kw):
    r = subprocess.run(cmd, shell=True, stdout=subprocess.PIPE, stderr=subprocess.STDOUT, text=True, **kw)
    return r.returncode, r.stdout


rc, out = sh('git -C /repo worktree add -q --detach %s HEAD' % wt)
if rc != 0:
    print(out)
    sys.exit(2)
env = dict(os.environ, NV_REPO=wt, NV_OUT='/tmp/seed/nvout-regress-%d' % os.getpid(), CARGO_NET_OFFLINE='true')
bad = 0
try:
    for tag in tags:
        meta = json.load(open('/verif/seeded/%s/meta.json' % tag))
        pid = meta.get('property') or meta['evaluation']['property']
        patch = '/verif/seeded/%s/patch.diff' % tag
        rc, out = sh('git apply --whitespace=nowarn %s' % patch, cwd=wt)
        if rc != 0:
            print('%-7s DOES NOT APPLY to HEAD: %s' % (tag, out.strip().splitlines()[-1] if out.strip() else ''))
            bad += 1
            continue
        rc, out = sh('./nv check %s' % pid, cwd='/verif', env=env)
        keys = re.findall(r'^  (R\w+\|[^\n]*?\|\d+) ', out, flags=re.M)
        fired = 'VIOLATION property=%s' % pid in out
        was = sorted(sum((meta.get('evaluation', {}).get('checks_firing') or {}).values(), []))
        status = 'caught' if fired else 'MISSED'
        if not fired:
            bad += 1
        print('%-7s %-6s %s%s' % (tag, status, '; '.join(sorted(set(k.split('|')[0] + ' ' + k.split('|')[1].split('::')[-1] for k in keys))),
                                 '' if sorted(keys) == [k for k in was if k.startswith('R')] or not was else '   (recorded: %s)' % '; '.join(sorted(set(k.split('|')[0] for k in was)))))
        sh('git checkout -q -- . && git clean -fdq -e target', cwd=wt)
    # the clean worktree must be silent for every property
    rc, out = sh('./nv all', cwd='/verif', env=env)
    if 'VIOLATION' in out or rc != 0:
        print('CLEAN TREE RAISES (rc=%d): ' % rc + '; '.join(l for l in out.splitlines() if l.startswith('VIOLATION') or l.startswith('ERROR')))
        bad += 1
    else:
        print('clean worktree: silent')
finally:
    sh('git -C /repo worktree remove --force %s' % wt)
    sh('git -C /repo worktree prune')
sys.exit(1 if bad else 0)
