#!/usr/bin/env python3
"""Regenerates the table of behaviour-preserving refactorings in DESIGN.md from benign/*/meta.json + benign/NOTES.json."""
import glob, json, os, re
notes = json.load(open('/verif/benign/NOTES.json')) if os.path.exists('/verif/benign/NOTES.json') else {}
rows = []
for p in sorted(glob.glob('/verif/benign/*/meta.json')):
    m = json.load(open(p))
    tag = os.path.basename(os.path.dirname(p))
    ev = m.get('evaluation', {})
    summ = re.sub(r'\s+', ' ', (m.get('summary') or ''))[:200].replace('|', '\\|')
    rows.append('| %s | %s | %s | %s | %s | %s |' % (tag, m.get('property'), summ, {True: 'pass', False: 'FAIL', None: '?'}[ev.get('tests_pass')],
                                                'silent' if ev.get('silent') else 'ALARM: ' + '; '.join(sorted({k.split('|')[0] for v in ev.get('false_alarms', {}).values() for k in v})),
                                                notes.get(tag, '')))
table = ('<!-- BENIGN:BEGIN -->\n| tag | property | refactoring steps (agent\'s summary, truncated) | existing tests | checks now | first contact and what was changed |\n'
         '|----|----|----|----|----|----|\n' + '\n'.join(rows) + '\n<!-- BENIGN:END -->')
d = open('/verif/DESIGN.md').read()
if '<!-- BENIGN:BEGIN -->' in d:
    d = re.sub(r'<!-- BENIGN:BEGIN -->.*?<!-- BENIGN:END -->', lambda _: table, d, flags=re.S)
else:
    d = d.replace('BENIGN_TABLE', table)
open('/verif/DESIGN.md', 'w').write(d)
print('%d benign refactorings in the table' % len(rows))
