#!/usr/bin/env python3
"""Regenerates the table of seeded changes in DESIGN.md from seeded/*/meta.json (+ seeded/NOTES.json for
the column 'first caught by')."""
import glob, json, os, re
rows = []
notes = {}
if os.path.exists('/verif/seeded/NOTES.json'):
    notes = json.load(open('/verif/seeded/NOTES.json'))
for p in sorted(glob.glob('/verif/seeded/*/meta.json')):
    m = json.load(open(p))
    tag = os.path.basename(os.path.dirname(p))
    ev = m.get('evaluation', {})
    fire = ev.get('checks_firing') or {}
    keys = []
    for pid, ks in sorted(fire.items()):
        for k in ks:
            parts = k.split('|')
            e = '%s %s (%s)' % (pid, parts[0], parts[1].split('::')[-1] if len(parts) > 1 else '')
            if e not in keys:
                keys.append(e)
    summ = re.sub(r'\s+', ' ', (m.get('summary') or ''))[:170]
    rows.append('| %s | %s | %s | %s | %s |' % (tag, ev.get('property', m.get('property')), summ.replace('|', '\\|'),
                                              'yes' if ev.get('confirmed') else ('no' if ev.get('confirmed') is False else '?'),
                                              ('; '.join(keys) if keys else '**missed**') + ((' — ' + notes[tag]) if tag in notes else '')))
table = '<!-- SEEDED:BEGIN -->\n| tag | property | change (agent\'s summary, truncated) | confirmed here | checks that report it (rule, function) |\n|----|----|----|----|----|\n' + '\n'.join(rows) + '\n<!-- SEEDED:END -->'
d = open('/verif/DESIGN.md').read()
if 'SEEDED_TABLE' in d:
    d = d.replace('SEEDED_TABLE', table)
else:
    d = re.sub(r'<!-- SEEDED:BEGIN -->.*?<!-- SEEDED:END -->', lambda _: table, d, flags=re.S)
open('/verif/DESIGN.md', 'w').write(d)
print('%d seeded changes in the table' % len(rows))
