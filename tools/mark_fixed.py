#!/usr/bin/env python3
"""usage: mark_fixed.py <property> <substring of the known keys to retire> <what failed>
Removes the matching `known:` lines and appends one `fixed:` line with /repo's HEAD."""
import subprocess, sys
prop, sub, what = sys.argv[1], sys.argv[2], sys.argv[3]
head = subprocess.check_output(['git', '-C', '/repo', 'rev-parse', '--short', 'HEAD'], text=True).strip()
p = '/verif/known_findings.txt'
lines = open(p).read().splitlines()
out, n = [], 0
for l in lines:
    if l.startswith('known: property=%s ' % prop) and sub in l:
        n += 1
        continue
    out.append(l)
out.append('fixed: property=%s %s %s' % (prop, head, what))
open(p, 'w').write('\n'.join(out) + '\n')
print('retired %d known line(s) for %s at %s' % (n, prop, head))
