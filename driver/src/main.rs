// nvdriver — rustc_private fact extractor for the Neumann static checks.
//
// Runs as RUSTC_WORKSPACE_WRAPPER under `cargo +nightly check`. For every
// workspace crate named in NV_CRATES (comma list; empty = all) it writes ONE
// file  $NV_FACTS_DIR/<crate>.jsonl  (one write per process):
//   line 1: {"crate":..,"adts":[..],"impls":[..]}
//   then one line per function / closure / coroutine body (MIR at
//   -Zmir-opt-level=0, drop-elaborated).
// No analysis happens here; rules live in /verif/rules (Python).
#![feature(rustc_private)]
extern crate rustc_abi;
extern crate rustc_driver;
extern crate rustc_hir;
extern crate rustc_interface;
extern crate rustc_middle;
extern crate rustc_span;

use rustc_driver::Compilation;
use rustc_hir::def::DefKind;
use rustc_middle::mir::*;
use rustc_middle::ty::{self, Instance, TyCtxt, TypingEnv};
use std::fmt::Write as _;

fn esc(s: &str) -> String {
    let mut o = String::with_capacity(s.len() + 2);
    o.push('"');
    for c in s.chars() {
        match c {
            '"' => o.push_str("\\\""),
            '\\' => o.push_str("\\\\"),
            '\n' => o.push_str("\\n"),
            '\t' => o.push_str("\\t"),
            '\r' => o.push_str("\\r"),
            c if (c as u32) < 0x20 => {
                let _ = write!(o, "\\u{:04x}", c as u32);
            }
            c => o.push(c),
        }
    }
    o.push('"');
    o
}

/// Canonical path of a definition. Items of workspace crates are printed by their
/// definition path (not by the shortest re-export visible from the current crate), so
/// `tensor_store::slab_router::SlabRouter` has one name in every crate's facts.
fn dp<'tcx>(tcx: TyCtxt<'tcx>, did: rustc_hir::def_id::DefId) -> String {
    let ws = std::env::var("NV_WORKSPACE").unwrap_or_default();
    let cname = tcx.crate_name(did.krate).to_string();
    if did.is_local() || ws.split(',').any(|c| c == cname) {
        rustc_middle::ty::print::with_no_visible_paths!(tcx.def_path_str(did))
    } else {
        tcx.def_path_str(did)
    }
}

struct Cx<'a, 'tcx> {
    tcx: TyCtxt<'tcx>,
    body: &'a Body<'tcx>,
    def: rustc_hir::def_id::DefId,
}

impl<'a, 'tcx> Cx<'a, 'tcx> {
    fn place(&self, p: &Place<'tcx>) -> String {
        let mut s = format!("[{},[", p.local.as_usize());
        let mut pty = PlaceTy::from_ty(self.body.local_decls[p.local].ty);
        let mut first = true;
        for el in p.projection.iter() {
            if !first {
                s.push(',');
            }
            first = false;
            match el {
                ProjectionElem::Deref => s.push_str("\"*\""),
                ProjectionElem::Field(f, _) => {
                    let name = match pty.ty.kind() {
                        ty::Adt(adt, _) => {
                            let v = match pty.variant_index {
                                Some(vi) => adt.variant(vi),
                                None => {
                                    if adt.is_enum() {
                                        adt.variant(rustc_abi::VariantIdx::from_u32(0))
                                    } else {
                                        adt.non_enum_variant()
                                    }
                                }
                            };
                            if f.as_usize() < v.fields.len() {
                                format!("{}.{}", dp(self.tcx, adt.did()), v.fields[f].name)
                            } else {
                                format!("#{}", f.as_usize())
                            }
                        }
                        _ => format!("#{}", f.as_usize()),
                    };
                    s.push_str(&esc(&name));
                }
                ProjectionElem::Downcast(name, vi) => {
                    let n = name
                        .map(|n| n.to_string())
                        .unwrap_or_else(|| format!("{}", vi.as_usize()));
                    s.push_str(&esc(&format!("as {}", n)));
                }
                ProjectionElem::Index(l) => {
                    s.push_str(&esc(&format!("[{}]", l.as_usize())));
                }
                ProjectionElem::ConstantIndex { .. } | ProjectionElem::Subslice { .. } => {
                    s.push_str("\"[]\"")
                }
                _ => s.push_str("\"?\""),
            }
            pty = pty.projection_ty(self.tcx, el);
        }
        s.push_str("]]");
        s
    }
    fn op(&self, o: &Operand<'tcx>) -> String {
        match o {
            Operand::Copy(p) => format!("[\"c\",{}]", self.place(p)),
            Operand::Move(p) => format!("[\"m\",{}]", self.place(p)),
            Operand::Constant(c) => format!("[\"k\",{}]", esc(&format!("{}", c.const_))),
            #[allow(unreachable_patterns)]
            _ => "[\"k\",\"?\"]".to_string(),
        }
    }
    fn rv(&self, r: &Rvalue<'tcx>) -> String {
        match r {
            Rvalue::Use(o, ..) => format!("[\"use\",{}]", self.op(o)),
            Rvalue::Ref(_, bk, p) => format!(
                "[\"ref\",{},{}]",
                self.place(p),
                if matches!(bk, BorrowKind::Mut { .. }) { 1 } else { 0 }
            ),
            Rvalue::RawPtr(_, p) => format!("[\"ref\",{},2]", self.place(p)),
            Rvalue::BinaryOp(op, b) => format!(
                "[\"bin\",{},{},{}]",
                esc(&format!("{:?}", op)),
                self.op(&b.0),
                self.op(&b.1)
            ),
            Rvalue::UnaryOp(op, a) => {
                format!("[\"un\",{},{}]", esc(&format!("{:?}", op)), self.op(a))
            }
            Rvalue::Cast(_, o, t) => {
                format!("[\"cast\",{},{}]", self.op(o), esc(&format!("{}", t)))
            }
            Rvalue::Discriminant(p) => format!("[\"disc\",{}]", self.place(p)),
            Rvalue::Aggregate(k, ops) => {
                let kind = match &**k {
                    AggregateKind::Adt(did, vi, _, _, _) => {
                        let adt = self.tcx.adt_def(*did);
                        if adt.is_enum() {
                            format!("{}::{}", dp(self.tcx, *did), adt.variant(*vi).name)
                        } else {
                            dp(self.tcx, *did)
                        }
                    }
                    AggregateKind::Closure(did, _) => {
                        format!("closure:{}", dp(self.tcx, *did))
                    }
                    AggregateKind::Coroutine(did, _) => {
                        format!("coroutine:{}", dp(self.tcx, *did))
                    }
                    AggregateKind::CoroutineClosure(did, _) => {
                        format!("closure:{}", dp(self.tcx, *did))
                    }
                    AggregateKind::Tuple => "tuple".to_string(),
                    AggregateKind::Array(_) => "array".to_string(),
                    _ => "other".to_string(),
                };
                let fields: Vec<String> = match &**k {
                    AggregateKind::Adt(did, vi, _, _, _) => {
                        let adt = self.tcx.adt_def(*did);
                        adt.variant(*vi).fields.iter().map(|f| f.name.to_string()).collect()
                    }
                    _ => vec![],
                };
                let mut s = format!("[\"agg\",{},[", esc(&kind));
                for (i, o) in ops.iter().enumerate() {
                    if i > 0 {
                        s.push(',');
                    }
                    s.push_str(&self.op(o));
                }
                s.push_str("],[");
                for (i, f) in fields.iter().enumerate() {
                    if i > 0 {
                        s.push(',');
                    }
                    s.push_str(&esc(f));
                }
                s.push_str("]]");
                s
            }
            Rvalue::CopyForDeref(p) => format!("[\"use\",[\"c\",{}]]", self.place(p)),
            Rvalue::Repeat(o, _) => format!("[\"repeat\",{}]", self.op(o)),
            _ => "[\"other\"]".to_string(),
        }
    }
    fn callee(&self, func: &Operand<'tcx>) -> (String, String, String) {
        if let Some((cdid, args)) = func.const_fn_def() {
            let env = TypingEnv::post_analysis(self.tcx, self.def);
            let generic = dp(self.tcx, cdid);
            let res = Instance::try_resolve(self.tcx, env, cdid, args).ok().flatten();
            let resolved = match res {
                Some(i) => dp(self.tcx, i.def_id()),
                None => generic.clone(),
            };
            let ga = format!("{:?}", args);
            (generic, resolved, ga)
        } else {
            ("<indirect>".to_string(), format!("<indirect:{}>", self.op(func)), String::new())
        }
    }
}

fn dump_adts<'tcx>(tcx: TyCtxt<'tcx>, out: &mut String) {
    out.push_str("\"adts\":[");
    let mut first = true;
    for ldid in tcx.hir_crate_items(()).definitions() {
        let did = ldid.to_def_id();
        let kind = tcx.def_kind(did);
        if !matches!(kind, DefKind::Struct | DefKind::Enum) {
            continue;
        }
        let adt = tcx.adt_def(did);
        if !first {
            out.push(',');
        }
        first = false;
        let _ = write!(
            out,
            "{{\"n\":{},\"k\":{},\"vis\":{},\"variants\":[",
            esc(&dp(tcx, did)),
            esc(if adt.is_enum() { "enum" } else { "struct" }),
            esc(&format!("{:?}", tcx.visibility(did)))
        );
        for (i, (vi, v)) in adt.variants().iter_enumerated().enumerate() {
            if i > 0 {
                out.push(',');
            }
            let discr = if adt.is_enum() {
                format!("{}", adt.discriminant_for_variant(tcx, vi).val)
            } else {
                "0".to_string()
            };
            let _ = write!(out, "{{\"n\":{},\"d\":{},\"fields\":[", esc(&v.name.to_string()), esc(&discr));
            for (j, f) in v.fields.iter().enumerate() {
                if j > 0 {
                    out.push(',');
                }
                let fty = tcx.type_of(f.did).instantiate_identity().skip_norm_wip();
                let _ = write!(
                    out,
                    "[{},{},{}]",
                    esc(&f.name.to_string()),
                    esc(&format!("{}", fty)),
                    esc(&format!("{:?}", f.vis))
                );
            }
            out.push_str("]}");
        }
        out.push_str("]}");
    }
    out.push_str("],");
}

fn dump_impls<'tcx>(tcx: TyCtxt<'tcx>, out: &mut String) {
    out.push_str("\"impls\":[");
    let mut first = true;
    for ldid in tcx.hir_crate_items(()).definitions() {
        let did = ldid.to_def_id();
        if !matches!(tcx.def_kind(did), DefKind::Impl { of_trait: true }) {
            continue;
        }
        let tr = tcx.impl_trait_ref(did).instantiate_identity().skip_norm_wip();
        if !first {
            out.push(',');
        }
        first = false;
        let _ = write!(
            out,
            "{{\"trait\":{},\"self\":{},\"items\":{{",
            esc(&dp(tcx, tr.def_id)),
            esc(&format!("{}", tr.self_ty()))
        );
        let mut f2 = true;
        for it in tcx.associated_items(did).in_definition_order() {
            if let Some(titem) = it.trait_item_def_id() {
                if !f2 {
                    out.push(',');
                }
                f2 = false;
                let _ = write!(out, "{}:{}", esc(&dp(tcx, titem)), esc(&dp(tcx, it.def_id)));
            }
        }
        out.push_str("}}");
    }
    out.push_str("]");
}

struct Cb;
impl rustc_driver::Callbacks for Cb {
    fn after_analysis<'tcx>(
        &mut self,
        _c: &rustc_interface::interface::Compiler,
        tcx: TyCtxt<'tcx>,
    ) -> Compilation {
        let out_dir = match std::env::var("NV_FACTS_DIR") {
            Ok(d) => d,
            Err(_) => return Compilation::Continue,
        };
        let krate = tcx.crate_name(rustc_hir::def_id::LOCAL_CRATE).to_string();
        if krate.starts_with("build_script") {
            return Compilation::Continue;
        }
        let only = std::env::var("NV_CRATES").unwrap_or_default();
        if !only.is_empty() && !only.split(',').any(|c| c == krate) {
            return Compilation::Continue;
        }
        rustc_middle::ty::print::with_crate_prefix!(dump(tcx, &out_dir, &krate));
        Compilation::Continue
    }
}

fn dump<'tcx>(tcx: TyCtxt<'tcx>, out_dir: &str, krate: &str) {
    {
        let sm = tcx.sess.source_map();
        let mut out = String::new();
        let _ = write!(out, "{{\"crate\":{},", esc(&krate));
        dump_adts(tcx, &mut out);
        dump_impls(tcx, &mut out);
        out.push_str("}\n");
        for ldid in tcx.hir_body_owners() {
            let did = ldid.to_def_id();
            let kind = tcx.def_kind(did);
            if !matches!(kind, DefKind::Fn | DefKind::AssocFn | DefKind::Closure) {
                continue;
            }
            if !tcx.is_mir_available(did) {
                continue;
            }
            // Coroutine (async) bodies: take the MIR from before the state-machine
            // transform, so awaits are plain `yield` edges and locals stay locals.
            let promoted_guard;
            let mut pre_transform = false;
            let body: &Body<'tcx> = if tcx.is_coroutine(did) {
                let (steal, _) = tcx.mir_promoted(ldid);
                if !steal.is_stolen() {
                    promoted_guard = steal.borrow();
                    pre_transform = true;
                    // SAFETY of lifetime: the Steal lives in the tcx arena ('tcx).
                    unsafe { &*( &*promoted_guard as *const Body<'tcx>) }
                } else {
                    tcx.optimized_mir(did)
                }
            } else {
                tcx.optimized_mir(did)
            };
            let cx = Cx { tcx, body, def: did };
            let lo = sm.lookup_char_pos(body.span.lo());
            let hi = sm.lookup_char_pos(body.span.hi());
            let file = format!("{}", lo.file.name.prefer_local_unconditionally());
            let vis = if matches!(kind, DefKind::Fn | DefKind::AssocFn) {
                format!("{:?}", tcx.visibility(did))
            } else {
                String::new()
            };
            let _ = write!(
                out,
                "{{\"n\":{},\"k\":{},\"co\":{},\"f\":{},\"l\":{},\"le\":{},\"vis\":{},\"exp\":{},\"argc\":{},\"locals\":[",
                esc(&dp(tcx, did)),
                esc(&format!("{:?}", kind)),
                if tcx.is_coroutine(did) { if pre_transform { 1 } else { 2 } } else { 0 },
                esc(&file),
                lo.line,
                hi.line,
                esc(&vis),
                if body.span.from_expansion() { 1 } else { 0 },
                body.arg_count
            );
            for (i, d) in body.local_decls.iter().enumerate() {
                if i > 0 {
                    out.push(',');
                }
                out.push_str(&esc(&format!("{}", d.ty)));
            }
            out.push_str("],\"names\":{");
            let mut first = true;
            for vdi in &body.var_debug_info {
                if let VarDebugInfoContents::Place(p) = &vdi.value {
                    if !first {
                        out.push(',');
                    }
                    first = false;
                    let _ = write!(out, "{}:{}", esc(&vdi.name.to_string()), cx.place(p));
                }
            }
            out.push_str("},\"promoted\":[");
            {
                // promoted constants: summarise what each one builds (e.g. `&TxPhase::Prepared`)
                let summarise = |pb: &Body<'tcx>| -> String {
                    let pcx = Cx { tcx, body: pb, def: did };
                    let mut parts: Vec<String> = Vec::new();
                    for data in pb.basic_blocks.iter() {
                        for st in &data.statements {
                            if let StatementKind::Assign(b) = &st.kind {
                                match &b.1 {
                                    Rvalue::Aggregate(..) | Rvalue::Use(Operand::Constant(_), ..) | Rvalue::Cast(..) => parts.push(pcx.rv(&b.1)),
                                    _ => {}
                                }
                            }
                        }
                    }
                    format!("[{}]", parts.join(","))
                };
                let mut firstp = true;
                if pre_transform {
                    let (_, psteal) = tcx.mir_promoted(ldid);
                    if !psteal.is_stolen() {
                        for pb in psteal.borrow().iter() {
                            if !firstp { out.push(','); }
                            firstp = false;
                            out.push_str(&summarise(pb));
                        }
                    }
                } else {
                    for pb in tcx.promoted_mir(did).iter() {
                        if !firstp { out.push(','); }
                        firstp = false;
                        out.push_str(&summarise(pb));
                    }
                }
            }
            out.push_str("],\"bb\":[");
            for (bi, data) in body.basic_blocks.iter().enumerate() {
                if bi > 0 {
                    out.push(',');
                }
                out.push_str("{\"s\":[");
                let mut fs = true;
                for st in &data.statements {
                    if let StatementKind::Assign(b) = &st.kind {
                        if !fs {
                            out.push(',');
                        }
                        fs = false;
                        let line = sm.lookup_char_pos(st.source_info.span.lo()).line;
                        let _ = write!(out, "[{},{},{}]", cx.place(&b.0), cx.rv(&b.1), line);
                    } else if let StatementKind::SetDiscriminant { place, variant_index } = &st.kind {
                        if !fs {
                            out.push(',');
                        }
                        fs = false;
                        let line = sm.lookup_char_pos(st.source_info.span.lo()).line;
                        let _ = write!(out, "[{},[\"setdisc\",{}],{}]", cx.place(place), variant_index.as_usize(), line);
                    }
                }
                out.push_str("],\"cleanup\":");
                out.push_str(if data.is_cleanup { "1" } else { "0" });
                out.push_str(",\"t\":");
                let t = data.terminator();
                let line = sm.lookup_char_pos(t.source_info.span.lo()).line;
                let exp = t.source_info.span.from_expansion();
                match &t.kind {
                    TerminatorKind::Call { func, args, destination, target, unwind, .. } => {
                        let (g, r, ga) = cx.callee(func);
                        let _ = write!(out, "[\"call\",{},{},[", esc(&g), esc(&r));
                        for (i, a) in args.iter().enumerate() {
                            if i > 0 {
                                out.push(',');
                            }
                            out.push_str(&cx.op(&a.node));
                        }
                        let uw = match unwind {
                            UnwindAction::Cleanup(b) => b.as_usize() as i64,
                            _ => -1,
                        };
                        let _ = write!(
                            out,
                            "],{},{},{},{},{},{}]",
                            cx.place(destination),
                            target.map(|b| b.as_usize() as i64).unwrap_or(-1),
                            uw,
                            line,
                            if exp { 1 } else { 0 },
                            esc(&ga)
                        );
                    }
                    TerminatorKind::Drop { place, target, unwind, .. } => {
                        let ty = place.ty(&body.local_decls, tcx).ty;
                        let uw = match unwind {
                            UnwindAction::Cleanup(b) => b.as_usize() as i64,
                            _ => -1,
                        };
                        let _ = write!(
                            out,
                            "[\"drop\",{},{},{},{},{}]",
                            cx.place(place),
                            esc(&format!("{}", ty)),
                            target.as_usize(),
                            uw,
                            line
                        );
                    }
                    TerminatorKind::SwitchInt { discr, targets } => {
                        let _ = write!(out, "[\"sw\",{},[", cx.op(discr));
                        for (i, (v, b)) in targets.iter().enumerate() {
                            if i > 0 {
                                out.push(',');
                            }
                            let _ = write!(out, "[{},{}]", esc(&format!("{}", v)), b.as_usize());
                        }
                        let _ = write!(out, "],{},{}]", targets.otherwise().as_usize(), line);
                    }
                    TerminatorKind::Goto { target } => {
                        let _ = write!(out, "[\"goto\",{}]", target.as_usize());
                    }
                    TerminatorKind::Return => out.push_str("[\"ret\"]"),
                    TerminatorKind::Assert { target, msg, .. } => {
                        let k = match &**msg {
                            AssertKind::BoundsCheck { .. } => "bounds",
                            AssertKind::Overflow(..) => "overflow",
                            AssertKind::OverflowNeg(..) => "overflow_neg",
                            AssertKind::DivisionByZero(..) => "div_zero",
                            AssertKind::RemainderByZero(..) => "rem_zero",
                            _ => "other",
                        };
                        if let AssertKind::BoundsCheck { len, index } = &**msg {
                            let _ = write!(out, "[\"assert\",{},{},{},{},{}]", esc(k), target.as_usize(), line, cx.op(index), cx.op(len));
                        } else {
                            let _ = write!(out, "[\"assert\",{},{},{}]", esc(k), target.as_usize(), line);
                        }
                    }
                    TerminatorKind::Unreachable => out.push_str("[\"unreach\"]"),
                    TerminatorKind::UnwindResume => out.push_str("[\"resume\"]"),
                    TerminatorKind::FalseEdge { real_target, .. } => {
                        let _ = write!(out, "[\"goto\",{}]", real_target.as_usize());
                    }
                    TerminatorKind::FalseUnwind { real_target, .. } => {
                        let _ = write!(out, "[\"goto\",{}]", real_target.as_usize());
                    }
                    TerminatorKind::Yield { resume, .. } => {
                        let _ = write!(out, "[\"yield\",{}]", resume.as_usize());
                    }
                    TerminatorKind::CoroutineDrop => out.push_str("[\"ret\"]"),
                    _ => out.push_str("[\"other\"]"),
                }
                out.push('}');
            }
            out.push_str("]}\n");
        }
        let path = format!("{}/{}.jsonl", out_dir, krate);
        let tmp = format!("{}/.{}.{}.tmp", out_dir, krate, std::process::id());
        std::fs::write(&tmp, out).expect("write facts");
        std::fs::rename(&tmp, &path).expect("rename facts");
    }
}

fn main() {
    let mut args: Vec<String> = std::env::args().collect();
    args.remove(1);
    rustc_driver::run_compiler(&args, &mut Cb);
}
